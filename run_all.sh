#!/bin/sh
# Convenience: run every check of one tier, one after the other. usage: ./run_all.sh quick|thorough [seed]
cd "$(dirname "$0")" || exit 2
tier=${1:-quick}; seed=${2:-0}; rc=0
for i in 01 02 03 04 05 06 07 08 09 10 11 12 13 14 15 16 17 18 19 20; do
  VERIF_SEED=$seed ./check C$i --tier "$tier" | grep -E "^(VIOLATION|INCONCLUSIVE|C[0-9]+ )" | cut -c1-260
done
