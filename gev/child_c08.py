"""Child process for C08: runs one search configuration (twice) in a deliberately perturbed process
environment and prints the evaluation trace as JSON.

usage: python -m gev.child_c08 '<json config>'
config: desc, repr, decider, alg, seed, budget, pop, padding, import_perm, grammar_first
"""

from __future__ import annotations

import hashlib
import json
import random as pyrandom
import sys


def main(argv):
    cfg = json.loads(argv[0])
    # 1. perturb the heap before anything of the library or the grammar exists
    pad = []
    for i in range(cfg.get("padding", 0)):
        pad.append(type(f"Pad{i}", (), {"x": i}) if i % 50 == 0 else object())
    from gev import core

    core.setup_paths()
    mods = [
        "geneticengine.grammar.grammar",
        "geneticengine.representations.tree.treebased",
        "geneticengine.representations.grammatical_evolution.ge",
        "geneticengine.representations.grammatical_evolution.structured_ge",
        "geneticengine.representations.grammatical_evolution.dynamic_structured_ge",
        "geneticengine.representations.stackgggp",
        "geneticengine.algorithms.gp.gp",
        "geneticengine.algorithms.hill_climbing",
        "geneticengine.problems",
        "geneticengine.random.sources",
    ]
    pyrandom.Random(cfg.get("import_perm", 0)).shuffle(mods)
    from gev import grammars

    cfg["desc"] = dict(cfg["desc"], _pad_between=[0, 48, 1040, 0, 528, 4112][cfg.get("import_perm", 0) // 7 % 6])
    built = None
    if cfg.get("grammar_first"):
        built = grammars.materialise(cfg["desc"])
    import importlib

    for m in mods:
        importlib.import_module(m)
        pad.append([object() for _ in range(cfg.get("padding", 0) // 20)])
    if built is None:
        built = grammars.materialise(cfg["desc"])

    from gev import refmodel, workload

    if cfg.get("prelude"):
        # an EARLIER, different problem in the same process over the same class objects: one field re-declared (the
        # documented idiom), a short search, then the field declared back as configured. Nothing of it may reach the
        # search under observation.
        d2 = grammars.retyped(cfg["desc"], pyrandom.Random(cfg["seed"]))
        if d2 is not None:
            try:
                b2 = grammars.apply_retype(built, d2)
                g2 = grammars.extract(b2)
                from geneticengine.algorithms.random_search import RandomSearch
                from geneticengine.evaluation.budget import EvaluationBudget
                from geneticengine.problems import SingleObjectiveProblem

                s2 = workload.native(999)
                rep2 = workload.make_repr(cfg["repr"], g2, "maxdepth", g2.get_min_tree_depth() + 2, s2, gene_length=64)
                RandomSearch(SingleObjectiveProblem(lambda p: 0.0), EvaluationBudget(6), rep2, s2).search()
            except BaseException:  # noqa - the earlier problem is only there to leave traces; its own fate is not judged here
                pass
            finally:
                built = grammars.apply_retype(grammars.Built(d2, built.module, built.ns, built.classes, built.start, {}), {k: v for k, v in cfg["desc"].items()})
    g = grammars.extract(built)
    model = refmodel.Model(built.classes, built.start)
    md = g.get_min_tree_depth() + cfg.get("extra_depth", 2)

    def run():
        from geneticengine.algorithms.gp.gp import GeneticProgramming
        from geneticengine.algorithms.hill_climbing import HC
        from geneticengine.algorithms.one_plus_one import OnePlusOne
        from geneticengine.algorithms.random_search import RandomSearch
        from geneticengine.evaluation.budget import EvaluationBudget
        from geneticengine.problems import SingleObjectiveProblem

        trace = []

        def fitness(p):
            t = model.canon(p)
            trace.append(t)
            return float(int(hashlib.md5(t.encode()).hexdigest()[:6], 16) % 97)

        src = workload.native(cfg["seed"])
        rep = workload.make_repr(cfg["repr"], g, cfg.get("decider", "maxdepth"), md, src, gene_length=64)
        prob = SingleObjectiveProblem(fitness, minimize=cfg.get("minimize", False))
        if cfg.get("multi"):
            # two coarse objectives: ties with the front and improvements that displace it happen all the time
            from geneticengine.problems import MultiObjectiveProblem

            def fitness2(p):
                h = int(fitness(p))
                return [float(h % 12), float((h // 12) % 3)]

            prob = MultiObjectiveProblem([False, True], fitness2)
        b = EvaluationBudget(cfg["budget"])
        step = None
        if cfg.get("step") == "cx":  # the default step crosses over with probability 0.01: make the operators actually run
            from geneticengine.algorithms.gp.operators.combinators import ParallelStep, SequenceStep
            from geneticengine.algorithms.gp.operators.crossover import GenericCrossoverStep
            from geneticengine.algorithms.gp.operators.elitism import ElitismStep
            from geneticengine.algorithms.gp.operators.mutation import GenericMutationStep
            from geneticengine.algorithms.gp.operators.selection import TournamentSelection

            step = ParallelStep([ElitismStep(), SequenceStep(TournamentSelection(2), GenericCrossoverStep(0.9), GenericMutationStep(0.5))], weights=[1, 9])
        tracker = None
        if cfg.get("tracker", "default") != "default":  # the ways a user hands a tracker to a search (geml, the csv example)
            from geneticengine.evaluation.recorder import SearchRecorder
            from geneticengine.evaluation.tracker import SingleObjectiveProgressTracker

            class Seen(SearchRecorder):
                def register(self, tracker, individual, problem, is_best):
                    pass

            tracker = SingleObjectiveProgressTracker(prob) if cfg["tracker"] == "bare" else SingleObjectiveProgressTracker(prob, recorders=[Seen()])
        alg = {
            "gp": lambda: GeneticProgramming(prob, b, rep, src, population_size=cfg.get("pop", 6), step=step, tracker=tracker),
            "rs": lambda: RandomSearch(prob, b, rep, src, tracker=tracker),
            "hc": lambda: HC(prob, b, rep, src, number_of_mutations=cfg.get("pop", 3), tracker=tracker),
            "opo": lambda: OnePlusOne(prob, b, rep, src, tracker=tracker),
        }[cfg["alg"]]()
        try:
            best = alg.search()
            res = {"best": model.canon(best.get_phenotype()), "fitness": list(best.get_fitness(prob).fitness_components)}
        except BaseException as e:  # noqa
            res = {"error": f"{type(e).__name__}@{core.exc_site(e)}"}
        res["trace"] = trace
        return res

    r1 = run()
    r2 = run()
    out = {
        "n": len(r1["trace"]),
        "trace_hash": hashlib.md5("\n".join(r1["trace"]).encode()).hexdigest(),
        "trace": r1["trace"],
        "best": r1.get("best"),
        "fitness": r1.get("fitness"),
        "error": r1.get("error"),
        "second_run_equal": (r1["trace"] == r2["trace"] and r1.get("best") == r2.get("best") and r1.get("fitness") == r2.get("fitness")),
        "second_first_divergence": next((i for i, (a, b) in enumerate(zip(r1["trace"], r2["trace"])) if a != b), None),
        "hashseed": sys.flags.hash_randomization,
        "id_probe": id(built.start) % 100000,
    }
    print("GEVJSON " + json.dumps(out))
    return 0


if __name__ == "__main__":
    sys.exit(main(sys.argv[1:]))
