"""Reference model: independent oracles over class hierarchies and produced programs.

Built from the supplied classes and their declared annotations with the standard `typing`
introspection only - never from Grammar.alternatives / distanceToTerminal / gengy_* labels or
the library's own helper predicates.
"""

from __future__ import annotations

import math
import typing
from abc import ABC
from typing import Annotated, Union, get_args, get_origin

INF = 10**9
BASE = (int, float, str, bool)


def tname(t) -> str:
    if isinstance(t, type):
        return t.__name__
    return str(t).replace("typing.", "")


def kind(t):
    """('base',T) ('list',E) ('tuple',[..]) ('union',[..]) ('ann',T,mh) ('class',C)"""
    if t in BASE:
        return ("base", t)
    o = get_origin(t)
    if o is Annotated:
        a = get_args(t)
        return ("ann", a[0], t.__metadata__[0])
    if o is list:
        return ("list", get_args(t)[0])
    if o is tuple:
        return ("tuple", list(get_args(t)))
    if o is Union:
        return ("union", list(get_args(t)))
    if isinstance(t, type):
        return ("class", t)
    return ("other", t)


def is_abs(c) -> bool:
    if not isinstance(c, type):
        return False
    return ABC in c.__bases__ or typing.Protocol in c.__bases__ or bool(c.__dict__.get("__gengy__", {}).get("abstract", False))


def fields_of(c) -> list:
    """Declared (name, type) of the constructor, in order."""
    if is_abs(c):
        return []
    init = c.__init__
    try:
        hints = typing.get_type_hints(init, include_extras=True)
    except Exception:
        import sys

        hints = typing.get_type_hints(init, globalns=vars(sys.modules[c.__module__]), include_extras=True)
    return [(n, t) for n, t in hints.items() if n != "return"]


class Model:
    def __init__(self, classes, start, expansion=False, closed=False):
        self.start = start
        self.expansion = bool(expansion)
        self.closed = bool(closed)  # the reachable sub-grammar: no symbol beyond the given classes (no climbing to their parents)
        self.supplied = list(dict.fromkeys(list(classes) + [start]))
        # symbols that can be registered: start, supplied subclasses of registered ones, field types, parents
        self._fields = {}
        self.registered = self._reach_registered()

    def fields(self, c):
        if c not in self._fields:
            self._fields[c] = fields_of(c)
        return self._fields[c]

    def direct_subtypes(self, a):
        return [c for c in self.supplied if isinstance(c, type) and a in c.__bases__]

    def all_subtypes(self, a):
        return [c for c in self.supplied if isinstance(c, type) and c is not a and issubclass(c, a)]

    def classes_in(self, t):
        k = kind(t)
        if k[0] == "class":
            return [k[1]]
        if k[0] == "ann":
            return self.classes_in(k[1])
        if k[0] == "list":
            return self.classes_in(k[1])
        if k[0] in ("tuple", "union"):
            return [c for x in k[1] for c in self.classes_in(x)]
        return []

    def _reach_registered(self):
        """Classes the grammar knows: closure of start under parents (abstract ancestors), supplied
        subclasses and field types."""
        seen, todo = [], [self.start]
        while todo:
            c = todo.pop()
            if c in seen or not isinstance(c, type):
                continue
            seen.append(c)
            for b in c.__bases__:
                if b not in (object, ABC, typing.Generic, typing.Protocol) and b not in BASE and (not self.closed or b in self.supplied):
                    todo.append(b)
            for s in self.supplied:
                if isinstance(s, type) and issubclass(s, c) and s is not c:
                    todo.append(s)
            if not is_abs(c):
                for _, t in self.fields(c):
                    todo.extend(self.classes_in(t))
        return seen

    # ---------------------------------------------------------------- productions / reachability
    def productions(self, a):
        return [c for c in self.registered if a in c.__bases__]

    def concrete_of(self, a):
        out = []
        for p in self.productions(a):
            if is_abs(p):
                out.extend(self.concrete_of(p))
            else:
                out.append(p)
        return out

    def reachable(self):
        """Symbols reachable from the start symbol by derivation (productions and fields)."""
        seen, todo = [], [self.start]
        while todo:
            c = todo.pop(0)
            if c in seen:
                continue
            seen.append(c)
            if is_abs(c):
                todo.extend(self.productions(c))
            else:
                for _, t in self.fields(c):
                    todo.extend(self.classes_in(t))
        return seen

    def derives_edges(self, c):
        if is_abs(c):
            return self.productions(c)
        return [x for _, t in self.fields(c) for x in self.classes_in(t)]

    def recursive(self, lists_may_be_empty=True):
        """Symbols that can derive a program containing themselves: on a cycle of the derives graph. (Whether a
        production whose only way out is an EMPTY list has a program at all is the documented ambiguity of the
        minimum depth: the caller may ask for either reading.)"""
        # "derive a PROGRAM": only symbols from which a finite program exists take part (a production that mentions an
        # abstract type without productions can never be completed, so no cycle runs through it)
        lo, _ = self.mindepth_table(lists_may_be_empty=lists_may_be_empty)
        productive = {c for c in self.registered if lo.get(c, INF) < INF}
        out = []
        for s in self.registered:
            if s not in productive:
                continue
            seen, todo = set(), [c for c in self.derives_edges(s) if c in productive]
            while todo:
                c = todo.pop()
                if c in seen:
                    continue
                seen.add(c)
                todo.extend(x for x in self.derives_edges(c) if x in productive)
            if s in seen:
                out.append(s)
        return out

    # ---------------------------------------------------------------- minimum depth (least fixpoint)
    def mindepth_table(self, lists_may_be_empty: bool, bool_reading: int = 0):
        """d[symbol] = depth of the shallowest derivable program. `lists_may_be_empty` selects the
        reading for list fields that admit length 0."""
        e = int(self.expansion)
        d = {c: INF for c in self.registered}

        def dt(t):
            k = kind(t)
            if k[0] == "base":
                return 1 if self.expansion else 0
            if k[0] == "ann":
                inner = kind(k[1])
                if inner[0] == "list":
                    lo = getattr(k[2], "min", None)
                    if lists_may_be_empty and (lo is None or lo == 0) and type(k[2]).__name__ != "Dependent":
                        return e
                    return min(INF, e + dt(inner[1]))
                return dt(k[1])
            if k[0] == "list":
                if lists_may_be_empty:
                    return e
                return min(INF, e + dt(k[1]))
            if k[0] == "tuple":
                return min(INF, e + max([dt(x) for x in k[1]] or [0]))
            if k[0] == "union":
                return min(INF, e + min(dt(x) for x in k[1]))
            if k[0] == "class":
                return d.get(k[1], INF)
            return INF

        changed = True
        while changed:
            changed = False
            for c in self.registered:
                if is_abs(c):
                    ps = self.productions(c)
                    v = min([e + d[p] for p in ps] or [INF])
                else:
                    fs = self.fields(c)
                    v = 1 if not fs else 1 + max(dt(t) for _, t in fs)
                v = min(v, INF)
                if v < d[c]:
                    d[c] = v
                    changed = True
        self._dt = dt
        return d, dt

    # ---------------------------------------------------------------- well-typedness
    def welltyped(self, v, t, path="$", out=None, budget=None):
        """List of (path, declared kind, reason) for every position whose value is not of its declared type."""
        if out is None:
            out = []
        if len(out) > 20:
            return out
        k = kind(t)
        if k[0] == "base":
            if type(v) is not k[1]:
                out.append((path, k[1].__name__, f"value of type {type(v).__name__}"))
        elif k[0] == "ann":
            self.welltyped(v, k[1], path, out)
        elif k[0] == "list":
            if not isinstance(v, list):
                out.append((path, "list", f"value of type {type(v).__name__}"))
            else:
                for i, x in enumerate(v):
                    self.welltyped(x, k[1], f"{path}[{i}]", out)
        elif k[0] == "tuple":
            if type(v) is not tuple:
                out.append((path, "tuple", f"value of type {type(v).__name__}"))
            elif len(v) != len(k[1]):
                out.append((path, "tuple", f"arity {len(v)} != {len(k[1])}"))
            else:
                for i, (x, tt) in enumerate(zip(v, k[1])):
                    self.welltyped(x, tt, f"{path}.{i}", out)
        elif k[0] == "union":
            best = None
            for tt in k[1]:
                sub = self.welltyped(v, tt, path, [])
                if not sub:
                    best = []
                    break
                if best is None or len(sub) < len(best):
                    best = sub
            if best:
                out.append((path, "union", f"no alternative accepts value of type {type(v).__name__}: {best[0][2]}"))
        elif k[0] == "class":
            c = k[1]
            if is_abs(c):
                conc = self.concrete_of(c)
                if type(v) not in conc:
                    out.append((path, "abstract", f"{type(v).__name__} is not a registered production of {c.__name__}"))
                    return out
                self._fields_ok(v, type(v), path, out)
            else:
                if type(v) is not c:
                    out.append((path, "concrete", f"value of type {type(v).__name__}, declared {c.__name__}"))
                    return out
                if c not in self.registered:
                    out.append((path, "concrete", f"{c.__name__} is not registered in the grammar"))
                    return out
                self._fields_ok(v, c, path, out)
        else:
            out.append((path, "other", f"unsupported declared type {t}"))
        return out

    def field_values(self, v, c):
        fs = self.fields(c)
        vals = []
        init = getattr(v, "gengy_init_values", None)
        for i, (n, t) in enumerate(fs):
            if hasattr(v, n):
                vals.append((n, t, getattr(v, n)))
            elif init is not None and i < len(init):
                vals.append((n, t, init[i]))
            else:
                vals.append((n, t, _MISSING))
        return vals

    def _fields_ok(self, v, c, path, out):
        for n, t, x in self.field_values(v, c):
            if x is _MISSING:
                out.append((f"{path}.{n}", "field", "field missing on the node"))
            else:
                self.welltyped(x, t, f"{path}.{n}", out)

    # ---------------------------------------------------------------- refinements
    def refinement_violations(self, v, t, path="$", siblings=None, out=None):
        """(path, metahandler name, reason) wherever a refined position holds a value outside the
        documented predicate. Only descends into positions that are well-typed enough to inspect."""
        if out is None:
            out = []
        if len(out) > 20:
            return out
        k = kind(t)
        if k[0] == "ann":
            mh = k[2]
            r = satisfies(v, k[1], mh, siblings or {})
            if r is not None:
                out.append((path, _mh_name(mh, siblings or {}), r))
            eff = effective_mh(mh, siblings or {})
            self.refinement_violations(v, k[1], path, siblings, out)
            _ = eff
        elif k[0] == "list":
            if isinstance(v, list):
                for i, x in enumerate(v):
                    self.refinement_violations(x, k[1], f"{path}[{i}]", None, out)
        elif k[0] == "tuple":
            if isinstance(v, tuple) and len(v) == len(k[1]):
                for i, (x, tt) in enumerate(zip(v, k[1])):
                    self.refinement_violations(x, tt, f"{path}.{i}", None, out)
        elif k[0] == "union":
            # the value must satisfy the refinements of at least one alternative it is well-typed for
            cands = [tt for tt in k[1] if not self.welltyped(v, tt, path, [])]
            if cands:
                subs = [self.refinement_violations(v, tt, path, None, []) for tt in cands]
                if all(subs):
                    out.extend(min(subs, key=len))
        elif k[0] == "class":
            c = type(v)
            if isinstance(k[1], type) and isinstance(v, k[1]) and not is_abs(c) and c in self.registered:
                sib = {}
                for n, tt, x in self.field_values(v, c):
                    if x is _MISSING:
                        continue
                    self.refinement_violations(x, tt, f"{path}.{n}", dict(sib), out)
                    sib[n] = x
        return out

    # ---------------------------------------------------------------- structure
    def is_node(self, v):
        return type(v) in self.registered or (isinstance(type(v), type) and any(isinstance(v, c) for c in self.registered if isinstance(c, type)))

    def children(self, v):
        if isinstance(v, (list, tuple)):
            return list(v)
        if type(v) in BASE or v is None:
            return []
        c = type(v)
        try:
            return [x for _, _, x in self.field_values(v, c) if x is not _MISSING]
        except Exception:
            return []

    def depth(self, v, _seen=0):
        """Longest chain of nested grammar nodes; lists, tuples and annotations are transparent.
        Iterative (explicit stack): programs hundreds of levels deep are legal inputs."""
        regs = tuple(c for c in self.registered)
        best, steps = 0, 0
        stack = [(v, 0)]
        while stack:
            x, d = stack.pop()
            steps += 1
            if steps > 3000000 or d > 100000:
                return INF
            if isinstance(x, (list, tuple)):
                stack.extend((c, d) for c in x)
            elif type(x) in BASE or x is None:
                continue
            elif isinstance(x, regs):
                best = max(best, d + 1)
                stack.extend((c, d + 1) for c in self.children(x))
        return best

    def canon(self, v, _d=0):
        if _d == 0:
            # the textual form is a recursive fold; programs thousands of levels deep (unbounded deciders) get a summary
            try:
                return self._canon(v, 1)
            except RecursionError:
                return f"<{type(v).__name__} program of depth {self.depth(v)}: too deep for a canonical text>"
        return self._canon(v, _d)

    def _canon(self, v, _d=0):
        if _d > 3000:
            return "<too deep>"
        if isinstance(v, list):
            return "[" + ",".join(self._canon(x, _d + 1) for x in v) + "]"
        if type(v) is tuple:
            return "(" + ",".join(self._canon(x, _d + 1) for x in v) + ")"
        if type(v) is bool:
            return f"b:{v}"
        if type(v) is int:
            return f"i:{v}"
        if type(v) is float:
            return f"f:{v!r}"
        if type(v) is str:
            return f"s:{v!r}"
        c = type(v)
        if c in self.registered and not is_abs(c):
            return c.__name__ + "(" + ",".join(f"{n}={self._canon(x, _d + 1) if x is not _MISSING else '<missing>'}" for n, _, x in self.field_values(v, c)) + ")"
        return f"<{c.__name__}>"

    # ---------------------------------------------------------------- bounded language (finite-choice grammars)
    def language(self, t, d, memo=None, siblings=None, cap=200000, conservative_lists=None):
        """All canonical texts of well-typed, refinement-satisfying values of type t whose depth <= d.
        Raises NotFinite for unbounded fields. conservative_lists=True selects the reading in which an empty list
        still needs room for one element (the reading under which a list field's minimum depth is its element's)."""
        if conservative_lists is not None:
            self._conservative = bool(conservative_lists)
            if self._conservative and not hasattr(self, "_dt_hi"):
                _, self._dt_hi = self.mindepth_table(False)
                self._dt_hi_fn = self._dt
        if memo is None:
            memo = {}
        k = kind(t)
        key = (id(t) if k[0] in ("ann",) else str(t), d) if siblings is None else None
        if key is not None and key in memo:
            return memo[key]
        res = self._language(t, k, d, memo, siblings, cap)
        if key is not None:
            memo[key] = res
        return res

    def _language(self, t, k, d, memo, siblings, cap):
        if k[0] == "base":
            if k[1] is bool:
                return ["b:True", "b:False"]
            raise NotFinite(f"unbounded base type {k[1].__name__}")
        if k[0] == "ann":
            mh = effective_mh(k[2], siblings or {})
            if mh is None:
                return []  # infeasible in this context
            vals = mh_values(mh, k[1])
            if vals is not None:
                return vals
            inner = kind(k[1])
            if inner[0] == "list" and type(mh).__name__ in ("ListSizeBetween", "ListSizeBetweenWithoutListOperations"):
                return self._lists(inner[1], mh.min, mh.max, d, memo, cap)
            if inner[0] == "class":
                raise NotFinite(f"annotated class type {tname(t)}")
            raise NotFinite(f"refinement {type(mh).__name__} on {tname(k[1])}")
        if k[0] == "list":
            return self._lists(k[1], 0, 10, d, memo, cap)
        if k[0] == "tuple":
            parts = [self.language(x, d, memo, None, cap) for x in k[1]]
            out = ["(" + ",".join(c) + ")" for c in _product(parts, cap)]
            return out
        if k[0] == "union":
            out = []
            for x in k[1]:
                for s in self.language(x, d, memo, None, cap):
                    if s not in out:
                        out.append(s)
            return out
        if k[0] == "class":
            c = k[1]
            if is_abs(c):
                out = []
                for p in self.productions(c):
                    out.extend(self.language(p, d, memo, None, cap))
                return list(dict.fromkeys(out))
            if d < 1:
                return []
            fs = self.fields(c)
            if not fs:
                return [c.__name__ + "()"]
            dependent = any(type(kk[2]).__name__ == "Dependent" for kk in (kind(tt) for _, tt in fs) if kk[0] == "ann")
            if not dependent:
                parts = [self.language(tt, d - 1, memo, None, cap) for _, tt in fs]
                return [c.__name__ + "(" + ",".join(f"{n}={s}" for (n, _), s in zip(fs, combo)) + ")" for combo in _product(parts, cap)]
            # dependent: enumerate left to right carrying actual sibling values
            partial = [([], {})]
            for n, tt in fs:
                nxt = []
                for texts, sib in partial:
                    for s in self.language(tt, d - 1, memo, sib, cap):
                        nsib = dict(sib)
                        nsib[n] = _value_of_text(s)
                        nxt.append((texts + [f"{n}={s}"], nsib))
                        if len(nxt) > cap:
                            raise NotFinite("language too large")
                partial = nxt
            return [c.__name__ + "(" + ",".join(texts) + ")" for texts, _ in partial]
        raise NotFinite(f"unsupported {t}")

    def _lists(self, et, lo, hi, d, memo, cap):
        elems = self.language(et, d, memo, None, cap)
        out = []
        for n in range(lo, hi + 1):
            if n == 0:
                if not getattr(self, "_conservative", False) or self._dt_hi_fn(et) <= d:
                    out.append("[]")
                continue
            if len(elems) ** n > cap:
                raise NotFinite("list language too large")
            for combo in _product([elems] * n, cap):
                out.append("[" + ",".join(combo) + "]")
        return out

    def text_depth(self, s: str) -> int:
        """Depth of a canonical text = maximal nesting of '(' that follow a class name (tuples use '(' too,
        so count only name-prefixed ones)."""
        depth = best = 0
        stack = []
        prev_alnum = False
        for ch in s:
            if ch == "(":
                stack.append(prev_alnum)
                if prev_alnum:
                    depth += 1
                    best = max(best, depth)
            elif ch == ")":
                if stack.pop():
                    depth -= 1
            prev_alnum = ch.isalnum() or ch == "_"
        return best


class NotFinite(Exception):
    pass


class _Missing:
    def __repr__(self):
        return "<missing>"


_MISSING = _Missing()


def _product(parts, cap):
    n = 1
    for p in parts:
        n *= len(p)
        if n > cap:
            raise NotFinite("language too large")
    import itertools

    return itertools.product(*parts)


def _value_of_text(s: str):
    """Inverse of canon for base values (needed for dependent siblings)."""
    if s.startswith("i:"):
        return int(s[2:])
    if s.startswith("b:"):
        return s[2:] == "True"
    if s.startswith("f:"):
        return float(s[2:])
    if s.startswith("s:"):
        import ast

        return ast.literal_eval(s[2:])
    return s


def _mh_name(mh, siblings):
    n = type(mh).__name__
    if n == "Dependent":
        eff = effective_mh(mh, siblings)
        return f"Dependent->{type(eff).__name__ if eff is not None else 'infeasible'}"
    return n


def effective_mh(mh, siblings):
    """Resolves Dependent by applying its own dependency function to the ACTUAL sibling values.
    Returns None if the dependency is infeasible for these siblings (the callable raises)."""
    if type(mh).__name__ != "Dependent":
        return mh
    names = mh.name.split(",")
    try:
        vals = [siblings[n] for n in names]
    except KeyError:
        return mh  # cannot evaluate: siblings unknown at this position
    try:
        return mh.callable(*vals)
    except Exception:
        return None


def mh_values(mh, base):
    """Canonical texts of all values of a finite refinement, or None if not enumerable here."""
    n = type(mh).__name__
    if n == "IntRange" and base is int:
        if mh.max - mh.min > 64:
            raise NotFinite("wide IntRange")
        return [f"i:{x}" for x in range(mh.min, mh.max + 1)]
    if n == "IntList" and base is int:
        return list(dict.fromkeys(f"i:{x}" for x in mh.elements))
    if n == "VarRange" and base is str:
        return list(dict.fromkeys(f"s:{x!r}" for x in mh.options))
    if n == "FloatList" and base is float:
        return list(dict.fromkeys(f"f:{float(x)!r}" for x in mh.elements))
    if n == "StringSizeBetween" and base is str:
        import itertools

        out = []
        for ln in range(mh.min, mh.max + 1):
            if len(mh.options) ** ln > 500:
                raise NotFinite("string language too large")
            out.extend("s:" + repr("".join(c)) for c in itertools.product(mh.options, repeat=ln))
        return list(dict.fromkeys(out))
    if n == "IntervalRange":
        out = []
        for ln in range(mh.minimum_length, mh.maximum_length + 1):
            for s in range(0, mh.maximum_top_limit - ln + 1):
                out.append(f"(i:{s},i:{s + ln})")
        return out
    if n in ("FloatRange", "WeightedStringHandler"):
        raise NotFinite(n)
    return None


def satisfies(v, base, mh, siblings):
    """None if v satisfies the documented predicate of mh, else a reason string.
    Type errors are C01's business: positions of the wrong type are skipped here."""
    eff = effective_mh(mh, siblings)
    n = type(eff).__name__ if eff is not None else None
    if eff is None:
        return "value present although the dependency admits none for these siblings"
    if n == "Dependent":
        return None  # siblings not known here
    try:
        if n == "IntRange":
            if type(v) is int and not (eff.min <= v <= eff.max):
                return f"{v} not in [{eff.min},{eff.max}]"
        elif n == "FloatRange":
            if type(v) is float and not (float(eff.min) <= v <= float(eff.max)):
                return f"{v!r} not in [{eff.min},{eff.max}]"
            if type(v) is float and math.isnan(v):
                return "NaN"
        elif n in ("IntList", "FloatList"):
            if type(v) in (int, float) and v not in eff.elements:
                return f"{v!r} not in {eff.elements}"
        elif n == "VarRange":
            if type(v) is str and v not in eff.options:
                return f"{v!r} not in {list(eff.options)[:8]}"
        elif n in ("ListSizeBetween", "ListSizeBetweenWithoutListOperations"):
            if isinstance(v, list) and not (eff.min <= len(v) <= eff.max):
                return f"length {len(v)} not in [{eff.min},{eff.max}]"
        elif n == "StringSizeBetween":
            if type(v) is str:
                if not (eff.min <= len(v) <= eff.max):
                    return f"length {len(v)} not in [{eff.min},{eff.max}]"
                bad = [ch for ch in v if ch not in eff.options]
                if bad:
                    return f"characters {bad[:3]} outside the alphabet"
        elif n == "WeightedStringHandler":
            if type(v) is str:
                rows = eff.probability_matrix.shape[0]
                if len(v) != rows:
                    return f"length {len(v)} != {rows}"
                bad = [ch for ch in v if ch not in eff.alphabet]
                if bad:
                    return f"characters {bad[:3]} outside the alphabet"
                for i, ch in enumerate(v):
                    if float(eff.probability_matrix[i][list(eff.alphabet).index(ch)]) == 0.0 and any(float(x) > 0 for x in eff.probability_matrix[i]):
                        return f"position {i} holds {ch!r} whose probability is 0"
        elif n == "IntervalRange":
            if type(v) is tuple and len(v) == 2 and all(type(x) is int for x in v):
                ln = v[1] - v[0]
                if not (eff.minimum_length <= ln <= eff.maximum_length):
                    return f"length {ln} not in [{eff.minimum_length},{eff.maximum_length}]"
                if v[0] < 0 or v[1] > eff.maximum_top_limit:
                    return f"{v} leaves [0,{eff.maximum_top_limit}]"
    except Exception as e:  # a predicate that cannot be evaluated decides nothing
        return None if isinstance(e, (TypeError, AttributeError)) else f"predicate raised {type(e).__name__}"
    return None


# ------------------------------------------------------------------------------------------------
# C11: reference fold for the per-node labels, under the convention pinned by the library's own tests
# (relabel_test / initializer_test): base values and field-less nodes count 0 nodes and sit at distance 0;
# a node with fields counts 1 and sits at max(1, 1 + deepest non-list child); lists are transparent for the
# distance and count 0; the weighted size adds the distance of every fielded node.


class Labels:
    __slots__ = ("nodes", "dist", "weighted", "types")

    def __init__(self, nodes, dist, weighted, types):
        self.nodes, self.dist, self.weighted, self.types = nodes, dist, weighted, types


def labels(model: Model, v, tuples_transparent: bool, table: dict, _d=0):
    """Computes reference labels for v and every node beneath it; fills table[id(node)] = Labels.
    types = dict class -> list of ids of instances beneath (including itself)."""
    if _d > 4000:
        raise RecursionError("program too deep for the reference fold")
    if isinstance(v, list):
        nodes = weighted = 0
        dist = 0
        types: dict = {}
        for x in v:
            lx = labels(model, x, tuples_transparent, table, _d + 1)
            nodes += lx.nodes
            weighted += lx.weighted
            dist = max(dist, lx.dist + (0 if isinstance(x, list) else 1))
            _merge(types, lx.types)
        res = Labels(nodes, dist, weighted, types)
        table[id(v)] = res
        return res
    if type(v) is tuple:
        if not tuples_transparent:
            for x in v:  # nodes inside the tuple still carry their own labels
                labels(model, x, tuples_transparent, table, _d + 1)
            return Labels(0, 0, 0, {})
        nodes = weighted = dist = 0
        types = {}
        for x in v:
            lx = labels(model, x, tuples_transparent, table, _d + 1)
            nodes += lx.nodes
            weighted += lx.weighted
            dist = max(dist, lx.dist)
            _merge(types, lx.types)
        return Labels(nodes, dist, weighted, types)
    c = type(v)
    if c in BASE or v is None or c not in model.registered:
        return Labels(0, 0, 0, {})
    fv = model.field_values(v, c)
    if not fv:
        res = Labels(0, 0, 0, {c: [id(v)]})
        table[id(v)] = res
        return res
    nodes, dist, weighted = 1, 1, 0
    types = {c: [id(v)]}
    for _, _, x in fv:
        if x is _MISSING:
            continue
        lx = labels(model, x, tuples_transparent, table, _d + 1)
        nodes += lx.nodes
        weighted += lx.weighted
        if type(x) is tuple:
            dist = max(dist, lx.dist + (1 if lx.nodes or lx.types else 0)) if tuples_transparent else dist
        else:
            dist = max(dist, lx.dist + (0 if isinstance(x, list) else 1))
        _merge(types, lx.types)
    weighted += dist
    res = Labels(nodes, dist, weighted, types)
    table[id(v)] = res
    return res


def hops(model: Model, a, p, _memo=None):
    """(fewest, most) rule expansions leading from abstract class a down to class p through the registered direct
    subclasses; None when p is not below a."""
    memo = model.__dict__.setdefault("_hops_memo", {})
    key = (a, p)
    if key in memo:
        return memo[key]
    memo[key] = None  # cycle guard
    best = None
    for c in model.productions(a):
        if c is p:
            r = (1, 1)
        elif is_abs(c):
            sub = hops(model, c, p)
            r = None if sub is None else (sub[0] + 1, sub[1] + 1)
        else:
            r = None
        if r is not None:
            best = r if best is None else (min(best[0], r[0]), max(best[1], r[1]))
    memo[key] = best
    return best


def _abstracts_in(t, out):
    k = kind(t)
    if k[0] == "ann" or k[0] == "list":
        _abstracts_in(k[1], out)
    elif k[0] in ("tuple", "union"):
        for x in k[1]:
            _abstracts_in(x, out)
    elif k[0] == "class" and is_abs(k[1]):
        out.append(k[1])
    return out


def hop_range(model: Model, t, p):
    """Interval of the number of rule expansions between a position declared as t and the production p found there.
    Exact (documented: 'the depth is increased each time a grammar production rule is expanded') when t is an
    abstract class itself; positions declared through wrappers (annotation, union, list element) are not documented:
    anything from 0 to the longest chain is accepted."""
    k = kind(t)
    if k[0] == "class":
        if not is_abs(k[1]):
            return (0, 0)
        r = hops(model, k[1], p)
        return r if r is not None else (0, len(model.registered))
    his = [h[1] for h in (hops(model, a, p) for a in _abstracts_in(t, [])) if h is not None]
    return (0, max(his) if his else 0)


def labels_expansion(model: Model, v, table: dict, decl=None, _d=0):
    """Expansion depthing: reference INTERVALS ((nodes, dist, weighted) lowest reading, highest reading) for v and every
    node beneath it; table[id(node)] = (lo, hi). The lowest reading counts nothing for built-in leaves, list levels
    and wrapped abstract positions, the highest counts one for each (and the longest chain of rules)."""
    if _d > 4000:
        raise RecursionError("program too deep for the reference fold")
    if isinstance(v, list):
        elem_t = None
        if decl is not None:
            k = kind(decl)
            if k[0] == "ann":
                k = kind(k[1])
            if k[0] == "list":
                elem_t = k[1]
        lo, hi = [0, 0, 0], [0, 0, 0]
        for x in v:
            (a, b) = labels_expansion(model, x, table, elem_t, _d + 1)
            if isinstance(x, list):
                hmax = 1  # a list level inside a list: one more in the highest reading, like a list field
            else:
                hmax = hop_range(model, elem_t, type(x))[1] if elem_t is not None else 0
            step = 0 if isinstance(x, list) else 1
            lo[0] += a[0]
            hi[0] += b[0] + hmax
            lo[2] += a[2]
            hi[2] += b[2]
            lo[1] = max(lo[1], a[1] + step)
            hi[1] = max(hi[1], b[1] + hmax + step)
        res = (tuple(lo), tuple(hi))
        table[id(v)] = res
        return res
    if type(v) is tuple:
        hi = [0, 0, 0]
        for x in v:
            (_, b) = labels_expansion(model, x, table, None, _d + 1)
            hi[0] += b[0] + len(model.registered)
            hi[2] += b[2]
            hi[1] = max(hi[1], b[1] + len(model.registered) + 1)
        return ((0, 0, 0), tuple(hi))
    c = type(v)
    if c in BASE or v is None or c not in model.registered:
        return ((0, 0, 0), (1, 1, 1))
    fv = model.field_values(v, c)
    if not fv:
        res = ((1, 1, 1), (1, 1, 1))  # documented: the single node 0 has distance 1
        table[id(v)] = res
        return res
    lo, hi = [1, 1, 0], [1, 1, 0]
    for _, t, x in fv:
        if x is _MISSING:
            continue
        (a, b) = labels_expansion(model, x, table, t, _d + 1)
        if isinstance(x, list):
            hl, hh, step_lo, step_hi = 0, 1, 0, 0
        elif type(x) is tuple:
            hl, hh, step_lo, step_hi = 0, 0, 0, 1
        else:
            hl, hh = hop_range(model, t, type(x))
            step_lo = step_hi = 1
        lo[0] += a[0] + hl
        hi[0] += b[0] + hh
        lo[2] += a[2]
        hi[2] += b[2]
        lo[1] = max(lo[1], a[1] + hl + step_lo)
        hi[1] = max(hi[1], b[1] + hh + step_hi)
    lo[2] += lo[1]
    hi[2] += hi[1]
    res = (tuple(lo), tuple(hi))
    table[id(v)] = res
    return res


def _merge(a: dict, b: dict):
    for k, ids in b.items():
        a.setdefault(k, []).extend(ids)


def walk_nodes(model: Model, v, out=None, _d=0):
    """All grammar-class instances and lists in v (each object once), depth-first."""
    if out is None:
        out = []
    if _d > 4000:
        return out
    if isinstance(v, (list, tuple)):
        if isinstance(v, list):
            out.append(v)
        for x in v:
            walk_nodes(model, x, out, _d + 1)
        return out
    c = type(v)
    if c in BASE or v is None or c not in model.registered:
        return out
    out.append(v)
    for _, _, x in model.field_values(v, c):
        if x is not _MISSING:
            walk_nodes(model, x, out, _d + 1)
    return out


# ------------------------------------------------------------------------------------------------
# Descriptor-driven refinement oracle: judges values against the refinement PARAMETERS THE GRAMMAR WAS WRITTEN WITH
# (the JSON descriptor), not against whatever metahandler object the live annotation currently carries. A defect
# that swaps or aliases refinement objects (caches keyed by an incomplete repr, stale annotations) is invisible to an
# oracle that re-reads the refinement from the class.


def _shadow(name, **kw):
    cls = type(name, (), {})
    o = cls()
    for k, v in kw.items():
        setattr(o, k, v)
    return o


def shadow_mh(d):
    """Stand-in object with the same class name and attribute names as the library's metahandler, built from a
    descriptor [name, *params] - so `satisfies` can judge it without touching the library object."""
    name, *p = d
    if name == "IntRange":
        return _shadow("IntRange", min=p[0], max=p[1])
    if name == "FloatRange":
        return _shadow("FloatRange", min=p[0], max=p[1])
    if name in ("IntList", "FloatList"):
        return _shadow(name, elements=list(p[0]))
    if name == "VarRange":
        return _shadow("VarRange", options=list(p[0]))
    if name == "ListSizeBetween":
        return _shadow("ListSizeBetween", min=p[0], max=p[1])
    if name == "LSBWLO":
        return _shadow("ListSizeBetweenWithoutListOperations", min=p[0], max=p[1])
    if name == "StringSizeBetween":
        return _shadow("StringSizeBetween", min=p[0], max=p[1], options=list(p[2]))
    if name == "WeightedString":
        import numpy as np

        return _shadow("WeightedStringHandler", probability_matrix=np.array(p[0]), alphabet=list(p[1]))
    if name == "IntervalRange":
        return _shadow("IntervalRange", minimum_length=p[0], maximum_length=p[1], maximum_top_limit=p[2])
    if name == "PassThrough":
        return _shadow("PassThrough")  # a user-defined refinement that admits every value of the base type
    raise ValueError(name)


def desc_refinement_violations(built, v, t=None, path="$", siblings=None, out=None, depth=0):
    """(path, refinement name, reason) for every refined position of v that violates the DESCRIPTOR's refinement.
    t is a descriptor type expression (default: the start symbol)."""
    from gev.grammars import dep_params

    if out is None:
        out = []
    if len(out) > 10 or depth > 400:
        return out
    if built.desc.get("python"):
        return out  # hand-built hierarchy: no descriptor to judge against
    if t is None:
        t = ["ref", built.desc["start"]]
    k = t[0]
    if k == "ann":
        r = satisfies(v, None, shadow_mh(t[2]), {})
        if r is not None:
            # a refinement stacked on an already refined type (Annotated[Annotated[T, A], B]) is named as such: python
            # flattens the two annotations into one
            out.append((path, t[2][0] + ("/stacked-on-a-refined-type" if t[1][0] == "ann" else ""), r))
        desc_refinement_violations(built, v, t[1], path, siblings, out, depth + 1)
    elif k == "dep":
        names = t[2].split(",")
        vals = [(siblings or {}).get(n, _MISSING) for n in names]
        sib = vals[0]
        if all(x is not _MISSING and type(x) is int for x in vals):
            d = dep_params(t[3], t[4], *vals)
            if d is None:
                out.append((path, "Dependent->infeasible", "value present although the dependency admits none for these siblings"))
            else:
                r = satisfies(v, None, shadow_mh(d), {})
                if r is not None:
                    out.append((path, "Dependent->" + d[0], r))
        desc_refinement_violations(built, v, t[1], path, None, out, depth + 1)
    elif k == "list":
        if isinstance(v, list):
            for i, x in enumerate(v):
                desc_refinement_violations(built, x, t[1], f"{path}[{i}]", siblings, out, depth + 1)  # a dependent element sees the FIELD's siblings
    elif k == "tuple":
        if type(v) is tuple and len(v) == len(t) - 1:
            for i, (x, tt) in enumerate(zip(v, t[1:])):
                desc_refinement_violations(built, x, tt, f"{path}.{i}", siblings, out, depth + 1)
    elif k == "union":
        subs = []
        for tt in t[1:]:
            if _desc_shape_ok(built, x=v, t=tt):
                subs.append(desc_refinement_violations(built, v, tt, path, siblings, [], depth + 1))
        if subs and all(subs):
            out.extend(min(subs, key=len))
    elif k == "ref":
        c = type(v)
        fields = built.field_types.get(c.__name__)
        if fields is not None and built.ns.get(c.__name__) is c:
            sib = {}
            for fn, ft in fields:
                x = getattr(v, fn, _MISSING)
                if x is _MISSING:
                    continue
                desc_refinement_violations(built, x, ft, f"{path}.{fn}", dict(sib), out, depth + 1)
                sib[fn] = x
    return out


def _desc_shape_ok(built, x, t):
    """Cheap structural test used to pick the union member a value belongs to."""
    k = t[0]
    if k in ("int", "float", "str", "bool"):
        return type(x) is {"int": int, "float": float, "str": str, "bool": bool}[k]
    if k in ("ann", "dep"):
        return _desc_shape_ok(built, x, t[1])
    if k == "list":
        return isinstance(x, list)
    if k == "tuple":
        return type(x) is tuple
    if k == "union":
        return any(_desc_shape_ok(built, x, tt) for tt in t[1:])
    if k == "ref":
        target = built.ns.get(t[1])
        return target is not None and isinstance(x, target)
    return False
