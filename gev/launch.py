"""Launcher: shards a property driver over subprocesses, merges, decides the three-valued verdict,
writes evidence/<id>.json and replay files, prints KNOWN-FINDING / VIOLATION / INCONCLUSIVE lines."""

from __future__ import annotations

import argparse
import fnmatch
import importlib
import json
import os
import shutil
import subprocess
import sys
import tempfile
import time

from gev import core


def load_known() -> list[dict]:
    p = core.VERIF / "known_findings.json"
    if not p.exists():
        return []
    return json.load(open(p))["findings"]


def run_shards(prop: str, tier: str, seed: int, plan: dict, replay: str | None):
    n = 1 if replay else plan.get("shards", 1)
    tmp = tempfile.mkdtemp(prefix=f"gev-{prop}-", dir=os.environ.get("GEV_SCRATCH") or None)
    procs = []
    for k in range(n):
        out = os.path.join(tmp, f"shard{k}.json")
        log = open(os.path.join(tmp, f"shard{k}.log"), "w")
        cmd = [core.PY, "-m", "gev.shard", prop, tier, str(seed), str(k), str(n), out]
        if replay:
            cmd += ["--replay", replay]
        procs.append((k, out, log, subprocess.Popen(cmd, stdout=log, stderr=subprocess.STDOUT, cwd=str(core.VERIF), env=core.child_env())))
    deadline = time.monotonic() + plan.get("shard_timeout", 600)
    dumps, problems = [], []
    for k, out, log, p in procs:
        try:
            p.wait(timeout=max(1, deadline - time.monotonic()))
        except subprocess.TimeoutExpired:
            p.kill()
            p.wait()
            problems.append(f"shard {k} exceeded the wall-clock watchdog")
        log.close()
        if os.path.exists(out):
            try:
                dumps.append(json.load(open(out)))
            except Exception as e:  # noqa
                problems.append(f"shard {k} wrote unreadable results: {e}")
        else:
            tail = open(log.name).read()[-1500:]
            problems.append(f"shard {k} produced no result (exit {p.returncode}): {tail}")
    keep = os.environ.get("GEV_KEEP_LOGS")
    if keep:
        shutil.copytree(tmp, keep, dirs_exist_ok=True)
    shutil.rmtree(tmp, ignore_errors=True)
    return dumps, problems


def main(argv=None):
    ap = argparse.ArgumentParser(prog="check")
    ap.add_argument("prop")
    ap.add_argument("--tier", default=os.environ.get("VERIF_TIER", "quick"), choices=["quick", "thorough"])
    ap.add_argument("--replay", default=None)
    ap.add_argument("--seed", type=int, default=int(os.environ.get("VERIF_SEED", "0")))
    args = ap.parse_args(argv)
    prop = args.prop.upper()
    t0 = time.monotonic()
    core.ensure_deps()
    core.setup_paths()
    drv = importlib.import_module(f"gev.props.{prop.lower()}")
    plan = drv.PLAN[args.tier]
    dumps, problems = run_shards(prop, args.tier, args.seed, plan, args.replay)
    m = core.merge(dumps) if dumps else {"counters": {}, "distinct": set(), "samples": [], "violations": {}, "inconclusive": [], "extra_sets": {}}
    inconclusive = list(problems) + list(m["inconclusive"])
    if hasattr(drv, "finish"):
        drv.finish(m, args.tier, inconclusive)
    counters = m["counters"]

    # classify violations against the committed known-findings file (never written at run time)
    known = [f for f in load_known() if f.get("status") == "known" and f["property"] == prop]
    known_hits, unlisted = {}, {}
    for mech, v in sorted(m["violations"].items()):
        hit = next((f for f in known if fnmatch.fnmatchcase(mech, f["mechanism"])), None)
        if hit is not None:
            known_hits.setdefault(hit["mechanism"], {"finding": hit, "count": 0, "mechanisms": []})
            known_hits[hit["mechanism"]]["count"] += v["count"]
            known_hits[hit["mechanism"]]["mechanisms"].append(mech)
        else:
            unlisted[mech] = v

    # coverage thresholds: a monitor that observed too little decides nothing
    if not args.replay:
        thresholds = dict(drv.THRESHOLDS.get(args.tier, {}))
        cal = core.VERIF / "gev" / "thresholds_thorough.json"
        if args.tier == "thorough" and cal.exists():  # measured on the unchanged tree (gev.calibrate)
            thresholds = json.load(open(cal)).get(prop, thresholds)
        for key, minimum in thresholds.items():
            if key.startswith("set:"):
                got = len(m["extra_sets"].get(key[4:], ()))
            else:
                got = counters.get(key, 0)
            if got < minimum:
                inconclusive.append(f"coverage: {key}={got} < {minimum}")
        if counters.get("case_timeouts", 0) > plan.get("max_case_timeouts", 0):
            inconclusive.append(f"{counters['case_timeouts']} cases hit the per-case watchdog")

    no_evidence = bool(os.environ.get("GEV_NO_EVIDENCE"))  # self-test runs against scratch mutants: leave evidence/ alone
    replay_dir = (core.VERIF / "replays" / prop) if not no_evidence else (core.VERIF / "replays" / "_selftest" / prop)
    lines = []
    for f in known:  # every listed finding is reported, with how often this run observed it
        n = known_hits.get(f["mechanism"], {}).get("count", 0)
        lines.append(f"KNOWN-FINDING: property={prop} {f['what']} [mechanism={f['mechanism']} observed={n}]")
    for mech, v in unlisted.items():
        replay_dir.mkdir(parents=True, exist_ok=True)
        path = replay_dir / f"{core.h(mech)}.json"
        w = v["witnesses"][0]
        json.dump({"property": prop, "mechanism": mech, "count": v["count"], "case": w["case"], "witness": w["witness"], "seed": args.seed, "tier": args.tier}, open(path, "w"), indent=1, default=str)
        lines.append(f"VIOLATION property={prop} replay={path} mechanism={mech} count={v['count']}")
        lines.append(f"  witness: {core.short(w['witness'], 600)}")

    if unlisted:
        verdict, code = "violated", 1
    elif inconclusive:
        verdict, code = "inconclusive", 2
    else:
        verdict, code = "held", 0
    if inconclusive and not unlisted:
        for r in inconclusive[:10]:
            lines.append(f"INCONCLUSIVE property={prop} reason={r}")

    wall = time.monotonic() - t0
    if not args.replay and not no_evidence:
        evaluations = int(counters.get("evaluations", counters.get("cases", 0)))
        coverage = {
            "evaluations": evaluations,
            "distinct_nontrivial": len(m["distinct"]),
            "rule": drv.RULE,
            "samples": m["samples"] or ["<no case completed>"],
            "counters": {k: counters[k] for k in sorted(counters)},
            "sets": {k: (sorted(v)[:40] if len(v) <= 400 else len(v)) for k, v in m["extra_sets"].items()},
            "set_sizes": {k: len(v) for k, v in m["extra_sets"].items()},
            "verdict": verdict,
            "known_findings_matched": {k: v["count"] for k, v in known_hits.items()},
            "unlisted_violations": {k: v["count"] for k, v in unlisted.items()},
            "inconclusive_reasons": inconclusive,
            "shards": plan.get("shards", 1),
            "repo_root": str(core.REPO),
        }
        if getattr(drv, "EXHAUSTIVE", False) and hasattr(drv, "exhaustive_note"):
            coverage["exhaustive_subspaces"] = drv.exhaustive_note(m)
        if hasattr(drv, "coverage_extra"):
            coverage.update(drv.coverage_extra(m))
        ev = {
            "property_id": prop,
            "tier": args.tier,
            "seed": args.seed,
            "level": drv.LEVEL,
            "coverage": coverage,
            "assumptions": drv.ASSUMPTIONS,
            "wall_s": round(wall, 2),
            "violations": sum(v["count"] for v in unlisted.values()),
        }
        (core.VERIF / "evidence").mkdir(exist_ok=True)
        json.dump(ev, open(core.VERIF / "evidence" / f"{prop}.json", "w"), indent=1, default=str)

    for ln in lines:
        print(ln)
    c = counters
    print(f"{prop} {args.tier} seed={args.seed}: {verdict}; cases={c.get('cases', 0)} evaluations={c.get('evaluations', 0)} distinct={len(m['distinct'])} wall={wall:.1f}s")
    return code


if __name__ == "__main__":
    sys.exit(main())
