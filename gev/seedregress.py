"""Regression of the machinery against every filed seeded change.

    python -m gev.seedregress [--jobs 3] [--only s1-C01,s3-C11] [--all-checks]

For each seeded/<name>/patch.diff: a scratch git worktree of /repo's HEAD (outside /repo and /verif, removed
afterwards) gets the patch applied, the property's own quick check (or, with --all-checks, all twenty) is run with
GEV_REPO_ROOT pointing at it and GEV_NO_EVIDENCE=1, and an unlisted VIOLATION is required. Nothing touches /repo's
working tree. Patches that no longer apply to HEAD are reported as such (not as a miss)."""

from __future__ import annotations

import concurrent.futures as cf
import json
import os
import shutil
import subprocess
import sys
import time

from gev import core

ROOT = os.path.expanduser("~/.cache/gev-seedregress")
ALL = [f"C{i:02d}" for i in range(1, 21)]


def sh(cmd, cwd=None, env=None, timeout=3000):
    return subprocess.run(cmd, cwd=cwd, env=env, capture_output=True, text=True, timeout=timeout)


def one(name, slot, all_checks):
    sd = core.VERIF / "seeded" / name
    meta = json.load(open(sd / "meta.json"))
    prop = meta.get("caught_by_check", meta["property"])  # (s7-C01, s7-C14: the change is caught by a neighbouring property's check)
    wt = os.path.join(ROOT, f"wt{slot}")
    sh(["git", "-C", wt, "reset", "-q", "--hard"])  # also clears a half-merged state left by a patch that did not apply
    sh(["git", "-C", wt, "clean", "-fdq"])
    r = sh(["git", "-C", wt, "apply", str(sd / "patch.diff")])
    if r.returncode != 0:
        r = sh(["git", "-C", wt, "apply", "--3way", str(sd / "patch.diff")])
    if r.returncode != 0:
        sh(["git", "-C", wt, "reset", "-q", "--hard"])
        if meta.get("superseded_at_head"):
            return name, prop, "superseded", {}, 0.0
        return name, prop, "patch-does-not-apply", {}, 0.0
    sh(["git", "-C", wt, "reset", "-q"])
    out = {}
    t0 = time.monotonic()
    for c in ALL if all_checks else [prop]:
        p = sh([str(core.VERIF / "check"), c, "--tier", "quick"], str(core.VERIF), dict(os.environ, GEV_REPO_ROOT=wt, GEV_NO_EVIDENCE="1"))
        mech = [ln.split("mechanism=")[-1] for ln in p.stdout.splitlines() if ln.startswith("VIOLATION")]
        if p.returncode == 2:
            mech = [ln[:160] for ln in p.stdout.splitlines() if ln.startswith("INCONCLUSIVE")][:2] or [p.stderr[-160:]]
        out[c] = (p.returncode, mech[:3])
    sh(["git", "-C", wt, "reset", "-q", "--hard"])
    sh(["git", "-C", wt, "clean", "-fdq"])
    verdict = "caught" if out[prop][0] == 1 else ("inconclusive" if out[prop][0] == 2 else "MISSED")
    if verdict == "MISSED" and meta.get("superseded_at_head"):
        # the patch no longer changes behaviour on HEAD (a later repair covers it): confirmed by its own demonstration
        demo = sd / "demo_break.py"
        if demo.exists():
            shutil.copy(demo, os.path.join(wt, "demo_break.py"))
            sh(["git", "-C", wt, "apply", str(sd / "patch.diff")])
            d = sh([core.PY, "demo_break.py"], wt, dict(os.environ, PYTHONPATH=wt, PYTHONHASHSEED="0"), 900)
            sh(["git", "-C", wt, "checkout", "--", "."])
            sh(["git", "-C", wt, "clean", "-fdq"])
            if d.returncode == 0:
                verdict = "superseded"
    return name, prop, verdict, out, time.monotonic() - t0


def main(argv):
    jobs, only, all_checks = 3, None, "--all-checks" in argv
    for i, a in enumerate(argv):
        if a == "--jobs":
            jobs = int(argv[i + 1])
        if a == "--only":
            only = set(argv[i + 1].split(","))
    names = sorted(d.name for d in (core.VERIF / "seeded").iterdir() if d.is_dir() and (d / "patch.diff").exists() and (d / "meta.json").exists())
    if only:
        names = [n for n in names if n in only]
    os.makedirs(ROOT, exist_ok=True)
    for s in range(jobs):
        wt = os.path.join(ROOT, f"wt{s}")
        if os.path.exists(wt):
            sh(["git", "-C", str(core.REPO), "worktree", "remove", "--force", wt])
            shutil.rmtree(wt, ignore_errors=True)
        r = sh(["git", "-C", str(core.REPO), "worktree", "add", "--detach", wt, "HEAD"])
        if r.returncode != 0:
            print(r.stderr)
            return 2
    results = []
    try:
        slots = list(range(jobs))
        with cf.ThreadPoolExecutor(jobs) as ex:
            free = list(slots)
            pending = {}
            it = iter(names)
            done_all = False
            while not done_all or pending:
                while free and not done_all:
                    try:
                        n = next(it)
                    except StopIteration:
                        done_all = True
                        break
                    s = free.pop()
                    pending[ex.submit(one, n, s, all_checks)] = s
                if not pending:
                    break
                done, _ = cf.wait(list(pending), return_when=cf.FIRST_COMPLETED)
                for f in done:
                    free.append(pending.pop(f))
                    name, prop, verdict, out, dt = f.result()
                    results.append((name, prop, verdict, out))
                    extra = ""
                    if all_checks:
                        extra = " also: " + ",".join(c for c, (rc, _) in out.items() if rc == 1 and c != prop)
                    print(f"{name} {prop} {verdict:8s} {dt:6.1f}s {'; '.join(out.get(prop, (0, []))[1])}{extra}", flush=True)
    finally:
        for s in range(jobs):
            wt = os.path.join(ROOT, f"wt{s}")
            sh(["git", "-C", str(core.REPO), "worktree", "remove", "--force", wt])
            shutil.rmtree(wt, ignore_errors=True)
        sh(["git", "-C", str(core.REPO), "worktree", "prune"])
        shutil.rmtree(ROOT, ignore_errors=True)
    caught = sum(1 for r in results if r[2] in ("caught", "superseded"))
    print(f"seedregress: {caught}/{len(results)} caught; not caught: {[r[0] + ':' + r[2] for r in results if r[2] not in ('caught', 'superseded')]}; superseded at HEAD: {[r[0] for r in results if r[2] == 'superseded']}")
    if all_checks:
        json.dump({r[0]: {c: {"exit": rc, "mechanisms": m} for c, (rc, m) in r[3].items()} for r in results}, open(core.VERIF / "seeded" / "matrix.json", "w"), indent=1, sort_keys=True)
    return 0 if caught == len(results) else 1


if __name__ == "__main__":
    sys.exit(main(sys.argv[1:]))
