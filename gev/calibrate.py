"""Derives the thorough-tier coverage thresholds from measured runs on the unchanged tree:
    python -m gev.calibrate C01 C02 ...   (reads evidence/<id>.json written by a thorough run)
Thresholds = 50 % of the measured counters, for the counters the quick tier already guards."""

from __future__ import annotations

import importlib
import json
import sys

from gev import core


def main(argv):
    path = core.VERIF / "gev" / "thresholds_thorough.json"
    cur = json.load(open(path)) if path.exists() else {}
    for pid in argv:
        ev = json.load(open(__import__("pathlib").Path(__import__("os").environ.get("GEV_EVIDENCE_DIR", core.VERIF / "evidence")) / f"{pid}.json"))
        if ev["tier"] != "thorough":
            print(pid, "evidence is not from a thorough run; skipped")
            continue
        drv = importlib.import_module(f"gev.props.{pid.lower()}")
        cnt, sets = ev["coverage"]["counters"], ev["coverage"]["set_sizes"]
        out = {}
        for key in drv.THRESHOLDS["quick"]:
            got = sets.get(key[4:], 0) if key.startswith("set:") else cnt.get(key, 0)
            out[key] = max(drv.THRESHOLDS["quick"][key], int(got * 0.5))
        cur[pid] = out
        print(pid, out)
    json.dump(cur, open(path, "w"), indent=1, sort_keys=True)


if __name__ == "__main__":
    main(sys.argv[1:])
