"""C11 - per-node size and depth metadata matches the actual program structure."""

from __future__ import annotations

import random as pyrandom

from gev import core, grammars, refmodel, stream, workload

PROPERTY = "C11"
LEVEL = "exploration"
TECHNIQUE = "runtime monitor: independent fold over the actual structure of every returned program compared with the gengy_nodes / gengy_distance_to_term / gengy_weighted_nodes / gengy_types_this_way attributes of EVERY node (after creation by every decider, after every mutation and crossover, and for genotype-mapped programs); under expansion depthing the comparison is against an interval reference (documented increments exact, undocumented ones bracketed between their lowest and highest reading); the parents of every variation are re-checked after it"
RULE = (
    "cases = (generated grammar with lists, lists of lists, unions, tuples; representation; decider; seed; op sequence); every node of every "
    "returned program is compared with the reference fold; distinct_nontrivial = distinct (canonical subtree, labels) pairs with at least one child node"
)
ASSUMPTIONS = [
    "convention pinned by the library's tests: base values and field-less nodes count 0 nodes at distance 0; a fielded node counts 1 at max(1, 1 + deepest non-list child); lists are transparent; weighted size = sum of distances of fielded nodes",
    "nodes nested in tuple fields may be counted or not (the statement names lists only): a node is flagged only if it disagrees with both readings",
    "the type index is compared on grammar classes only, as multisets of object identities",
    "expansion depthing: one per rule expansion along the class hierarchy for positions declared with an abstract class and 1 for a field-less node are documented and exact; built-in leaves, list levels and wrapped positions are bracketed between their lowest (0) and highest (1 / longest chain) reading",
]
PLAN = {
    "quick": {"shards": 8, "shard_timeout": 400, "case_timeout": 25, "grammars": 150, "max_case_timeouts": 6},
    "thorough": {"shards": 16, "shard_timeout": 3600, "case_timeout": 40, "grammars": 14000, "max_case_timeouts": 160},
}
THRESHOLDS = {
    "quick": {"earlier_programs_rechecked_after_the_owner_extended_its_list": 30, "cases_declared_with_string_annotations": 50, "nodes_compared": 20000, "nodes_under_lists": 2000, "programs_after_variation": 300, "repr:tree": 300, "repr:ge": 100, "repr:sge": 100, "repr:dsge": 100, "list_nodes_compared": 1000, "expansion_nodes_compared": 8000, "expansion_nodes_with_exact_reference": 3000, "layered_expansion_cases": 100, "parents_rechecked_after_variation": 1000},
    "thorough": {"nodes_compared": 400000, "nodes_under_lists": 40000, "programs_after_variation": 6000},
}


def gen_cases(tier, seed):
    yield from stream.gen_cases(tier, seed, PLAN[tier]["grammars"], profiles=("general",), with_search=False, expansion_share=0.3)
    for k in range(4):
        yield {"kind": "shared-context", "desc": {"name": "py_context", "python": "context", "abstracts": [], "prods": [], "start": "Program", "expansion": k % 2 == 1}, "repr": "tree", "decider": "maxdepth", "extra_depth": 2, "seed": seed * 31 + k, "nops": 0, "search": None, "retype": False}
    rng3 = pyrandom.Random(f"c11-composite-{seed}")  # (own stream: every other case keeps its seed)
    for k in range(15 if tier == "quick" else 600):
        rk = ["stack", "tree", "ge", "stack", "sge"][k % 5]
        yield {"desc": dict(T_COMPOSITE_MEMBERS, expansion=(k % 7 == 3)), "repr": rk, "decider": "own" if rk == "stack" else "maxdepth", "extra_depth": rng3.choice([1, 2, 3]), "seed": rng3.randrange(10**6), "nops": 10, "search": None, "retype": False}
    # expansion depthing on layered hierarchies, entered at every level and with the classes listed in several orders
    # (the per-rule expansion counts are derived from registration order)
    rng = pyrandom.Random(f"c11-layers-{seed}")
    layered = [d for d in grammars.family(seed, PLAN[tier]["grammars"], "general") if any(a.get("parent") for a in d["abstracts"])]
    for desc in layered:
        for k in range(4):
            d = grammars.reordered(dict(desc), rng, move_start=True)
            d["expansion"] = True
            for rk, dk in (("tree", rng.choice(["maxdepth", "pigrow"])), (rng.choice(["ge", "sge", "dsge"]), "own" if False else "maxdepth")):
                if rk == "dsge":
                    dk = "own"
                yield {"desc": d, "repr": rk, "decider": dk, "extra_depth": rng.choice([1, 2, 3]), "seed": rng.randrange(10**6), "nops": rng.randint(6, 14), "search": None, "retype": False, "layered": True}


T_COMPOSITE_MEMBERS = {  # refined values BELOW a field: a refined list as a tuple member, as a union member, as a list element
    # (s4-C11: the stack mapper left such a list unlabelled; the random family had offered the shape in ONE grammar of seed 0,
    # which a new shared fixture shifted away - the seed regression noticed)
    "name": "t_composite_members",
    "abstracts": [{"name": "E", "parent": None, "style": "abc"}],
    "prods": [
        {"name": "Lit", "parent": "E", "fields": [["v", ["ann", ["int"], ["IntRange", 0, 5]]]]},
        {"name": "Pairing", "parent": "E", "fields": [["p", ["tuple", ["ann", ["list", ["ref", "E"]], ["ListSizeBetween", 1, 2]], ["bool"]]]]},
        {"name": "Pairing2", "parent": "E", "fields": [["p", ["tuple", ["ann", ["int"], ["IntRange", 0, 3]], ["ann", ["list", ["ann", ["int"], ["IntRange", 0, 9]]], ["LSBWLO", 1, 3]]]]]},
        {"name": "Rows", "parent": "E", "fields": [["rows", ["list", ["ann", ["list", ["ref", "Lit"]], ["ListSizeBetween", 1, 2]]]]]},
    ],
    "start": "E",
}


def observed(n, model):
    try:
        idx = n.gengy_types_this_way
        types = {k: sorted(id(o) for o in v) for k, v in idx.items() if k in model.registered}
        return (n.gengy_nodes, n.gengy_distance_to_term, n.gengy_weighted_nodes, {k: v for k, v in types.items() if v})
    except AttributeError:
        return None


def check_program(ctx, prog, where, rec):
    model = ctx.model
    if ctx.case.get("layered") and where == "create":
        rec.count("layered_expansion_programs")
    rec.count("programs_checked")
    rec.count(f"repr:{ctx.repr}")
    if where in ("mutate", "crossover"):
        rec.count("programs_after_variation")
    expansion = bool(ctx.case["desc"].get("expansion"))
    nodes = refmodel.walk_nodes(model, prog)
    if not nodes:
        return
    t_open, t_closed = {}, {}
    try:
        refmodel.labels(model, prog, True, t_open)
        refmodel.labels(model, prog, False, t_closed)
    except RecursionError:
        rec.count("too_deep_for_reference")
        return
    t_exp: dict = {}
    if expansion:
        try:
            refmodel.labels_expansion(model, prog, t_exp, None)
        except RecursionError:
            rec.count("too_deep_for_reference")
            return
    in_list = _ids_under_lists(model, prog)
    seen = set()
    for n in nodes:
        if id(n) in seen:
            continue
        seen.add(id(n))
        is_list = isinstance(n, list)
        obs = observed(n, model)
        if obs is None:
            if is_list and type(n) is list:
                rec.count("plain_lists_skipped")  # a plain list cannot carry attributes; its parent's labels cover it
                continue
            rec.violation(f"unlabelled:{ctx.repr}:{'list' if is_list else 'node'}", {"where": where, "node": core.short(model.canon(n), 200), "grammar": ctx.case["desc"]["name"]})
            continue
        if len(nodes) <= 300:
            # whatever the index is keyed by (grammar classes, builtins, the list type - conventions the comparison below
            # leaves alone): a program node or a list it NAMES must be the node itself or lie beneath it (s7-C11: a one-element
            # list's index aliased with its element's, so that the element listed its own container)
            rec.count("type_index_membership_checked")
            beneath = {id(x) for x in refmodel.walk_nodes(model, n)} | {id(n)}
            foreign = sorted({type(o).__name__ for v in n.gengy_types_this_way.values() for o in v if (isinstance(o, list) or type(o) in model.registered) and id(o) not in beneath})
            if foreign:
                rec.violation(f"labels:{ctx.repr}:type-index-names-something-not-beneath-the-node:{'list' if is_list else 'node'}", {"where": where, "node": core.short(model.canon(n), 200), "named": foreign, "grammar": ctx.case["desc"]["name"]})
        if expansion:
            # expansion depthing: the documented part (one per rule expansion along the class hierarchy, a field-less node
            # counts 1) is exact, the rest (built-in leaves, list levels, wrapped positions) is bracketed by its lowest and
            # highest reading; the type index does not depend on the depthing mode
            rec.count("expansion_nodes_compared")
            iv = t_exp.get(id(n))
            if iv is not None:
                lo, hi = iv
                names = ["nodes", "distance", "weighted"]
                bad = [names[i] for i in range(3) if not (lo[i] <= obs[i] <= hi[i])]
                if bad:
                    ctxs = "under-list" if id(n) in in_list else ("has-list-child" if any(isinstance(x, list) for x in model.children(n)) else "plain")
                    rec.violation(f"labels-expansion:{ctx.repr}:{bad[0]}:{ctxs}", {"where": where, "node": core.short(model.canon(n), 300), "observed": {"nodes": obs[0], "distance": obs[1], "weighted": obs[2]}, "lowest_reading": list(lo), "highest_reading": list(hi), "grammar": ctx.case["desc"]["name"], "start": ctx.case["desc"]["start"], "class_order": ctx.case["desc"].get("considered")})
                elif lo == hi:
                    rec.count("expansion_nodes_with_exact_reference")
                    rec.distinct_add(["exp", model.canon(n), obs[0], obs[1], obs[2]])
            tys = [{k: sorted(v) for k, v in table[id(n)].types.items()} for table in (t_open, t_closed) if id(n) in table]
            if tys and obs[3] not in tys:
                rec.violation(f"labels-expansion:{ctx.repr}:types", {"where": where, "node": core.short(model.canon(n), 300), "grammar": ctx.case["desc"]["name"]})
            continue
        rec.count("nodes_compared")
        if is_list:
            rec.count("list_nodes_compared")
        if id(n) in in_list:
            rec.count("nodes_under_lists")
        refs = []
        for table in (t_open, t_closed):
            r = table.get(id(n))
            if r is not None:
                refs.append((r.nodes, r.dist, r.weighted, {k: sorted(v) for k, v in r.types.items()}))
        if not refs:
            continue
        if obs not in refs:
            r = refs[-1]
            names = ["nodes", "distance", "weighted", "types"]
            bad = [names[i] for i in range(4) if all(obs[i] != rr[i] for rr in refs)] or ["combination"]
            ctxs = "under-list" if id(n) in in_list else ("has-list-child" if any(isinstance(x, list) for x in model.children(n)) else "plain")
            rec.violation(
                f"labels:{ctx.repr}:{bad[0]}:{ctxs}",
                {"where": where, "node": core.short(model.canon(n), 300), "observed": _fmt(obs), "reference": _fmt(r), "grammar": ctx.case["desc"]["name"], "decider": ctx.decider},
            )
        elif obs[0] >= 1 and any(not isinstance(x, (int, float, str, bool)) for x in model.children(n)):
            rec.distinct_add([model.canon(n), obs[0], obs[1], obs[2]])
    rec.sample({"grammar": ctx.case["desc"]["name"], "repr": ctx.repr, "where": where, "root_labels": _fmt(observed(nodes[0], model)), "program": model.canon(prog)[:200]})


def _fmt(o):
    if o is None:
        return None
    return {"nodes": o[0], "distance": o[1], "weighted": o[2], "types": {k.__name__: len(v) for k, v in o[3].items()}}


def _ids_under_lists(model, v, under=False, out=None, d=0):
    if out is None:
        out = set()
    if d > 4000:
        return out
    if isinstance(v, list):
        for x in v:
            _ids_under_lists(model, x, True, out, d + 1)
    elif type(v) is tuple:
        for x in v:
            _ids_under_lists(model, x, under, out, d + 1)
    elif type(v) in model.registered:
        if under:
            out.add(id(v))
        for x in model.children(v):
            _ids_under_lists(model, x, under, out, d + 1)
    return out


def run_shared_context(case, rec):
    """A user metahandler hands ONE list object (a prelude of names its owner keeps extending) to every program through
    `initial_values`: each program's metadata must go on describing that program after the owner extended its list."""
    ctx = stream.open_case(case, rec)
    if ctx is None:
        return
    try:
        src = workload.native(case["seed"])
        rep = workload.make_repr("tree", ctx.grammar, "maxdepth", ctx.max_depth + 1, src)
        prelude = ctx.built.ns["prelude"]
        progs = []
        for rnd in range(3):
            for _ in range(3):
                p = rep.create_genotype(src)
                progs.append(p)
                check_program(ctx, p, "create", rec)
            prelude.append(progs[-1].scope.body)  # the owner's list grows by an expression the library created (its own business)
            for p in progs:
                rec.count("earlier_programs_rechecked_after_the_owner_extended_its_list")
                check_program(ctx, p, "earlier-program-after-the-owner-extended-its-list", rec)
    finally:
        ctx.built.dispose()


def run_case(case, rec):
    if case.get("kind") == "shared-context":
        return run_shared_context(case, rec)
    ctx = stream.open_case(case, rec)
    if ctx is None:
        return
    if case.get("layered"):
        rec.count("layered_expansion_cases")
    try:

        def on_event(ev: workload.Event):
            rec.count("evaluations")
            if ev.exc is not None:
                rec.count("op_raised")
                return
            for p in ev.phenotypes:
                check_program(ctx, p, ev.op, rec)
            if ev.repr_kind == "tree" and ev.op in ("crossover", "mutate"):
                # the programs that went IN are still live programs: their metadata must still describe them
                for p in ev.inputs:
                    rec.count("parents_rechecked_after_variation")
                    check_program(ctx, p, "parent-after-" + ev.op, rec)

        stream.run_session(ctx, on_event)
    finally:
        ctx.built.dispose()
