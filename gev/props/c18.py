"""C18 - random primitives honour their contracts for every random source."""

from __future__ import annotations

import itertools
import math
import random as pyrandom
import sys

from gev import core, sources

core.setup_paths()

PROPERTY = "C18"
LEVEL = "exploration"
EXHAUSTIVE = True
TECHNIQUE = "runtime contracts (icontract post-conditions with OLD snapshots) attached to the real RandomSource primitives of every source implementation and to the deciders' random_int, driven with boundary-biased inputs; derived primitives additionally run under a scripted inner randint that enumerates ALL draws for small inputs (exact selection counts per weight, all permutations, every pop position); bounds are compared exactly (ints against floats), pop_random is judged by object identity, weighted choices also with one weight list reused across calls, the deciders' random_int over every width of a band"
RULE = (
    "cases = (source implementation in {native, GE wrapper, stack wrapper, SGE wrapper, dSGE genotype-backed, scripted}, gene list or seed, "
    "script of primitive calls with boundary bounds / option lists / weight vectors); every call is checked by a post-condition; exhaustive cases "
    "enumerate every draw of choice / choice_weighted (weights in multiples of 1e-5) / shuffle / pop_random / random_bool for inputs of size <= 4; "
    "distinct_nontrivial = distinct (implementation, primitive, argument shape, result) observations"
)
ASSUMPTIONS = [
    "float results are compared against float bounds (closed interval)",
    "'in proportion to their weights' is decided exactly on weights that are multiples of the primitive's own 1e-5 granularity, where every draw is enumerated",
    "gene lists are non-empty (the representations never create empty genotypes)",
]
PLAN = {
    "quick": {"shards": 8, "shard_timeout": 300, "case_timeout": 30, "cases": 4000, "max_case_timeouts": 2},
    "thorough": {"shards": 16, "shard_timeout": 3600, "case_timeout": 60, "cases": 1000000, "max_case_timeouts": 10},
}
THRESHOLDS = {
    "quick": {"decider_random_str": 100, "weighted_choices_after_the_list_was_changed_in_place": 300, "contract_evaluations": 100000, "impl:native": 5000, "impl:ge": 5000, "impl:stack": 5000, "impl:sge": 5000, "impl:dsge": 1000, "exhaustive_spaces": 100, "decider_random_int": 20000, "wide_ranges": 3000, "zero_weight_offers": 2000, "same_seed_streams": 20, "decider_widths_enumerated": 3000, "weighted_enumerations_with_reused_list": 10, "pops_from_lists_with_equal_but_distinct_elements": 500, "gene_domain_weighted_draws": 20000, "gene_domain:dsge:fresh": 2, "gene_domain:stack:mutated": 2},
    "thorough": {"contract_evaluations": 2000000, "exhaustive_spaces": 2000, "decider_random_int": 400000},
}

REC = {"rec": None, "impl": "?"}
MAXI = sys.maxsize


def _r():
    return REC["rec"]


def _viol(mech, wit):
    _r().violation(mech, wit)


def _obs(prim, shape, result):
    r = _r()
    r.count("contract_evaluations")
    r.count("evaluations")
    r.count(f"impl:{REC['impl']}")
    r.distinct_add([REC["impl"], prim, shape, repr(result)[:40]])


# ------------------------------------------------------------------------------- post-conditions (named defs)


def post_randint(self, min, max, result):
    _obs("randint", [min, max], result)
    if max - min > 1000:
        _r().count("wide_ranges")
    if type(result) is not int or not (min <= result <= max):
        _viol(f"randint-out-of-bounds:{REC['impl']}", {"min": min, "max": max, "result": core.short(result)})
    return True


def post_random_float(self, min, max, result):
    _obs("random_float", [min, max], result)
    # exact comparison (python compares ints and floats exactly): with int bounds beyond 2**53 the float NEXT to a bound
    # can lie outside it
    if type(result) is not float:
        _viol(f"random_float-not-a-float:{REC['impl']}", {"min": min, "max": max, "result": core.short(result), "type": type(result).__name__})
    elif math.isnan(result) or not (min <= result <= max):
        _viol(f"random_float-out-of-bounds:{REC['impl']}", {"min": min, "max": max, "result": repr(result)})
    return True


def post_choice(self, choices, result):
    _obs("choice", len(choices), result)
    if not any(result is c or result == c for c in choices):
        _viol(f"choice-not-a-member:{REC['impl']}", {"choices": core.short(choices), "result": core.short(result)})
    return True


def post_choice_weighted(self, choices, weights, result):
    _obs("choice_weighted", [len(choices), [0 if w == 0 else 1 for w in weights]], result)
    if any(w == 0 for w in weights) and any(w > 0 for w in weights):
        _r().count("zero_weight_offers")
    idx = [i for i, c in enumerate(choices) if c is result or c == result]
    if not idx:
        _viol(f"choice_weighted-not-a-member:{REC['impl']}", {"choices": core.short(choices), "result": core.short(result)})
    elif all(weights[i] == 0 for i in idx) and any(w > 0 for w in weights):
        _viol(f"choice_weighted-zero-weight-option:{REC['impl']}", {"choices": core.short(choices), "weights": list(weights), "result": core.short(result)})
    return True


def snap_list(lst):
    return list(lst)


def post_shuffle(self, lst, result, OLD):
    _obs("shuffle", len(OLD.before), None)
    if result is not lst or sorted(map(repr, result)) != sorted(map(repr, OLD.before)):
        _viol(f"shuffle-not-a-permutation:{REC['impl']}", {"before": core.short(OLD.before), "after": core.short(result)})
    return True


def post_pop_random(self, lst, result, OLD):
    _obs("pop_random", len(OLD.before), None)
    # "removes exactly the returned element": by IDENTITY - the returned object is one of the objects given, and what
    # is left are the other objects (equal-but-distinct elements are different elements)
    rest = [id(x) for x in OLD.before]
    ok = id(result) in rest
    if ok:
        rest.remove(id(result))
    if len({repr(x) for x in OLD.before}) < len({id(x) for x in OLD.before}):
        _r().count("pops_from_lists_with_equal_but_distinct_elements")
    if not ok or sorted(rest) != sorted(id(x) for x in lst):
        kind = "equal-but-distinct" if ok or any(x == result for x in OLD.before) else "plain"
        _viol(f"pop_random-removes-wrong-element:{REC['impl']}:{kind}", {"before": core.short(OLD.before), "after": core.short(lst), "result": core.short(result), "result_still_in_list": any(x is result for x in lst)})
    return True


def post_random_bool(self, result):
    _obs("random_bool", None, result)
    if type(result) is not bool:
        _viol(f"random_bool-not-bool:{REC['impl']}", {"result": core.short(result)})
    return True


def post_normalvariate(self, mean, sigma, result):
    _obs("normalvariate", None, None)
    if type(result) is not float or math.isnan(result):
        _viol(f"normalvariate-not-a-float:{REC['impl']}", {"result": core.short(result)})
    return True


def post_random_int(self, min_int, max_int, result):
    r = _r()
    r.count("contract_evaluations")
    r.count("evaluations")
    r.count("decider_random_int")
    if max_int - min_int > 1000:
        r.count("wide_ranges")
    r.distinct_add([type(self).__name__, "random_int", [min_int, max_int], result % 97 if type(result) is int else repr(result)])
    if type(result) is not int or not (min_int <= result <= max_int):
        side = "above" if (type(result) is int and result > max_int) else "below"
        _viol(f"decider-random_int-out-of-bounds:{'DynamicSGEDecider' if type(self).__name__ == 'DynamicSGEDecider' else 'BaseDecider'}:{'wide' if max_int - min_int > 1000 else 'narrow'}", {"min": min_int, "max": max_int, "result": core.short(result), "side": side})
    return True


INSTALLED = {"done": False, "wrapped": 0}


def install():
    """Attaches the post-conditions to the real classes (before any workload object exists)."""
    if INSTALLED["done"]:
        return
    import icontract
    from geneticengine.random.sources import NativeRandomSource, RandomSource
    from geneticengine.representations.grammatical_evolution import dynamic_structured_ge as D
    from geneticengine.representations.grammatical_evolution import ge as GE
    from geneticengine.representations.grammatical_evolution import structured_ge as SGE
    from geneticengine.representations import stackgggp as ST
    from geneticengine.representations.tree import initializations as I

    class PostBroken(Exception):
        pass

    def wrap(cls, name, cond, snapshot=False):
        f = cls.__dict__.get(name)
        if f is None:
            return
        g = icontract.ensure(cond, error=PostBroken)(f)
        if snapshot:
            g = icontract.snapshot(snap_list, name="before")(g)
        setattr(cls, name, g)
        INSTALLED["wrapped"] += 1

    impls = [NativeRandomSource, GE.ListWrapper, ST.ListWrapper, SGE.StructuredListWrapper, sources.ScriptedSource]
    if hasattr(D, "GenotypeBackedSource"):
        impls.append(D.GenotypeBackedSource)
    for cls in impls:
        wrap(cls, "randint", post_randint)
        wrap(cls, "random_float", post_random_float)
        wrap(cls, "normalvariate", post_normalvariate)
    wrap(RandomSource, "choice", post_choice)
    wrap(RandomSource, "choice_weighted", post_choice_weighted)
    wrap(RandomSource, "shuffle", post_shuffle, snapshot=True)
    wrap(RandomSource, "pop_random", post_pop_random, snapshot=True)
    wrap(RandomSource, "random_bool", post_random_bool)
    wrap(RandomSource, "normalvariate", post_normalvariate)
    for cls in (I.BaseDecider, D.DynamicSGEDecider):
        wrap(cls, "random_int", post_random_int)
    INSTALLED["done"] = True


def setup(rec):
    install()
    if INSTALLED["wrapped"] < 15:
        rec.note_inconclusive(f"only {INSTALLED['wrapped']} primitives could be wrapped")


class _Leaf:
    """Value-equal nodes (what dataclass grammar nodes are)."""

    def __init__(self, v):
        self.v = v

    def __eq__(self, other):
        return isinstance(other, _Leaf) and other.v == self.v

    def __hash__(self):
        return hash(self.v)

    def __repr__(self):
        return f"Leaf({self.v})"


def equal_but_distinct(rng):
    """Lists whose elements are == but not the same object: equal nodes, 1 / 1.0 / True, equal tuples built apart."""
    k = rng.choice([2, 3, 4, 6])
    form = rng.randrange(4)
    if form == 0:
        return [_Leaf(0) for _ in range(k)]
    if form == 1:
        return [_Leaf(i % 2) for i in range(k)]
    if form == 2:
        return [1, 1.0, True, 2][:k] if k <= 4 else [1, 1.0, True, 2, 2.0, 3]
    return [tuple([1, i % 2]) for i in range(k)]


# ------------------------------------------------------------------------------- workloads

BOUNDS = [(0, 0), (-3, -3), (-5, 5), (0, 1), (1, 6), (-1000, 1000), (0, 1500), (0, 1001), (-700, 800), (5, 100005), (-(MAXI - 1), MAXI), (0, MAXI), (-MAXI, 0), (MAXI - 3, MAXI), (-10**12, 10**12)]
FBOUNDS = [(0.0, 1.0), (-1.5, 2.5), (3.0, 3.0), (-100.0, 100.0), (0.0, 1e-9), (-1e12, 1e12)]
# bounds whose difference does not add back exactly ((max - min) + min lands one ulp above max), degenerate ranges at
# constants with a full mantissa, and ranges wider than the largest float (max - min overflows)
FBOUNDS += [(float("-inf"), float("inf")), (float("-inf"), 0.0), (1.5, float("inf"))]  # infinite bounds are ordinary floats
FBOUNDS += [(0, MAXI), (-MAXI, 0), (2**53 + 1, 2**53 + 3), (0, 9), (-MAXI, MAXI)]  # int bounds (FloatRange(0, 9) is legal), also beyond 2**53
FBOUNDS += [(-0.3, 0.1), (0.1, 0.7), (-0.7, -0.1), (0.9, 0.9), (1.7, 1.7), (1 / 3, 1 / 3), (-1e308, 1e308), (-1.7e308, 1.7e308), (5e-324, 1e-323)]
WEIGHTS = [[0, 1, 2], [1, 0], [0, 0, 5], [5, 0, 0], [1, 1, 1], [0.5, 0, 0.25], [0, 0, 0, 1], [3], [0.00001, 0.99999], [2, 0, 0, 0, 3], [0, 1e-5],
           # weights below the 1e-5 the implementation resolves (only ratios mean anything: a caller's weights may all be tiny)
           [0, 1e-6], [0, 1e-7, 0], [0.0, 4e-6, 4e-6], [0, 0, 1e-300], [1e-9, 0]]


def gen_genes(rng):
    n = rng.choice([1, 1, 2, 3, 5, 8, 17, 64])
    pool = [0, 1, 2, -1, -7, MAXI, MAXI - 1, 2**63 - 1, 10, 255, 1024, 99991]
    return [rng.choice(pool) if rng.random() < 0.6 else rng.randrange(0, MAXI) for _ in range(n)]


def gen_cases(tier, seed):
    n = PLAN[tier]["cases"]
    rng = pyrandom.Random(f"c18-{seed}")
    kinds = ["native", "ge", "stack", "sge", "dsge", "exhaustive", "decider", "dsge-decider", "seeds"]
    for i in range(n):
        yield {"kind": kinds[i % len(kinds)], "seed": rng.randrange(10**9), "i": i}
    for i in range(8 if tier == "quick" else 200):  # weighted choices answered from the genes the representations themselves write
        for rk in ("ge", "sge", "dsge", "stack"):
            yield {"kind": "gene-domain", "repr": rk, "mutated": i % 2 == 1, "seed": rng.randrange(10**9), "i": i}
    # the deciders' wide-range draw has a small decision tree (n, e, sign): enumerate ALL draws for EVERY width of a band
    top = 2400 if tier == "quick" else 40000
    for lo in range(1001, top, 50):
        yield {"kind": "decider-exhaustive", "lo": lo, "hi": min(lo + 50, top), "seed": 0, "i": lo}


def make_source(kind, rng):
    from geneticengine.random.sources import NativeRandomSource
    from geneticengine.representations.grammatical_evolution import dynamic_structured_ge as D
    from geneticengine.representations.grammatical_evolution import ge as GE
    from geneticengine.representations.grammatical_evolution import structured_ge as SGE
    from geneticengine.representations import stackgggp as ST

    if kind == "native":
        return NativeRandomSource(rng.randrange(10**6))
    if kind == "ge":
        return GE.ListWrapper(gen_genes(rng))
    if kind == "stack":
        return ST.ListWrapper(gen_genes(rng))
    if kind == "sge":
        return SGE.StructuredListWrapper({SGE.INFRASTRUCTURE_KEY: gen_genes(rng), "other": gen_genes(rng)})
    if kind == "dsge":
        if not hasattr(D, "GenotypeBackedSource"):
            return None

        class G:
            all_nodes = set()

            def get_min_tree_depth(self):
                return 0

        geno = D.Genotype(NativeRandomSource(rng.randrange(10**6)), {})
        return D.GenotypeBackedSource(D.DynamicSGEDecider(geno, G(), 5))
    raise ValueError(kind)


def script(src, rng, n=60):
    """A mixed script of primitive calls with boundary-biased arguments."""
    for _ in range(n):
        p = rng.random()
        try:
            if p < 0.35:
                a, b = rng.choice(BOUNDS)
                src.randint(a, b)
            elif p < 0.45:
                a, b = rng.choice(FBOUNDS)
                src.random_float(a, b)
            elif p < 0.55:
                src.choice([object() for _ in range(rng.choice([1, 2, 3, 7]))])
            elif p < 0.66:
                w = rng.choice(WEIGHTS)
                src.choice_weighted([f"o{i}" for i in range(len(w))], list(w))
            elif p < 0.72:
                # weights that a caller ADAPTS between two choices, in the same list object (adaptive operator weights,
                # `weights[i] = 0` to retire an option): each call is answered from the weights as they are at that call
                w = [1.0, 1.0, 0.0]
                opts = ["o0", "o1", "o2"]
                src.choice_weighted(opts, w)
                w[0], w[2] = 0.0, 2.0
                for _ in range(3):
                    src.choice_weighted(opts, w)
                _r().count("weighted_choices_after_the_list_was_changed_in_place", 3)
            elif p < 0.82:
                src.shuffle([rng.randrange(5) for _ in range(rng.choice([0, 1, 2, 5, 9]))])
            elif p < 0.86:
                src.pop_random([object() for _ in range(rng.choice([1, 2, 4, 9]))])
            elif p < 0.90:
                src.pop_random(equal_but_distinct(rng))
            elif p < 0.96:
                src.random_bool()
            else:
                src.normalvariate(0.0, 1.0)
        except core.CaseTimeout:
            raise
        except BaseException as e:  # noqa
            _viol(f"primitive-raises:{REC['impl']}:{type(e).__name__}@{core.exc_site(e)}", {"error": core.short(e)})


def run_case(case, rec):
    REC["rec"] = rec
    rng = pyrandom.Random(case["seed"])
    kind = case["kind"]
    if kind in ("native", "ge", "stack", "sge", "dsge"):
        REC["impl"] = kind
        src = make_source(kind, rng)
        if src is None:
            return
        script(src, rng, 80)
        if case["i"] < 40:
            rec.sample({"impl": kind, "genes": core.short(getattr(src, "dna", None), 120), "calls": 80})
    elif kind == "exhaustive":
        REC["impl"] = "scripted"
        exhaustive(rng, rec)
    elif kind == "decider":
        deciders(rng, rec)
    elif kind == "dsge-decider":
        dsge_decider(rng, rec)
    elif kind == "seeds":
        same_seed(rng, rec)
    elif kind == "decider-exhaustive":
        decider_exhaustive(case, rec)
    elif kind == "gene-domain":
        gene_domain(case, rng, rec)


def gene_domain(case, rng, rec):
    """'Selects options in proportion to their weights ... including the genotype-backed sources used for mapping': the
    genes are the randomness there, so the proportion is the one over the genes that the representation ITSELF writes -
    fresh ones (create_genotype; dynamic SGE: on-demand extension) and mutated ones. Decided with a margin no chance
    leaves: over N >= 1500 draws an option of weight share p must be taken at least p/2 * N and at most (1+p)/2 * N times."""
    from collections import Counter

    from geneticengine.random.sources import NativeRandomSource
    from geneticengine.representations.grammatical_evolution import dynamic_structured_ge as D
    from geneticengine.representations.grammatical_evolution import ge as GE
    from geneticengine.representations.grammatical_evolution import structured_ge as SGE
    from geneticengine.representations import stackgggp as ST
    from gev import evo

    rk = case["repr"]
    REC["impl"] = rk
    g, _ = evo.tiny()
    native = NativeRandomSource(case["seed"] % 10**6)
    L = 48
    if rk == "ge":
        rep = GE.GrammaticalEvolutionRepresentation(g, None, gene_length=L)
    elif rk == "sge":
        rep = SGE.StructuredGrammaticalEvolutionRepresentation(g, None, gene_length=L)
    elif rk == "stack":
        rep = ST.StackBasedGGGPRepresentation(g, L)
    else:
        rep = D.DynamicStructuredGrammaticalEvolutionRepresentation(g, max_depth=5)
    w = rng.choice([[0.5, 0.5], [0.25, 0.75], [0.2, 0.3, 0.5], [1, 1], [1, 2, 1], [0.9, 0.1]])
    opts = [f"o{i}" for i in range(len(w))]
    got: Counter = Counter()
    n = 0
    for _ in range(40):
        geno = rep.create_genotype(native)
        if case["mutated"] and rk != "dsge":
            for _ in range(6 * L):  # nearly every gene has been written by the mutation operator
                geno = rep.mutate(native, geno)
        if rk == "ge":
            src = GE.ListWrapper(geno.dna)
        elif rk == "stack":
            src = ST.ListWrapper(geno.dna)
        elif rk == "sge":
            if case["mutated"]:
                for _ in range(4 * L):  # the mutation picks one of many gene lists (some of the genes read below are mutated ones)
                    geno = rep.mutate(native, geno)
            src = SGE.StructuredListWrapper(geno.dna)
        else:
            src = D.GenotypeBackedSource(D.DynamicSGEDecider(geno, g, 5))
            if case["mutated"]:
                for _ in range(L):
                    src.randint(0, 1)  # extend, then let the mutation operator rewrite the genes, then read them again
                for _ in range(6 * L):
                    geno = rep.mutate(native, geno)
                src = D.GenotypeBackedSource(D.DynamicSGEDecider(geno, g, 5))
        for _ in range(L - 2):
            got[src.choice_weighted(list(opts), list(w))] += 1
            n += 1
    rec.count("gene_domain_weighted_draws", n)
    rec.count("evaluations", n)
    rec.count(f"gene_domain:{rk}:{'mutated' if case['mutated'] else 'fresh'}")
    tot = sum(w)
    for o, wi in zip(opts, w):
        p = wi / tot
        if not (p / 2 * n <= got[o] <= (1 + p) / 2 * n):
            _viol(f"choice_weighted-ignores-weights-over-the-representation's-own-genes:{rk}:{'mutated' if case['mutated'] else 'fresh'}-genes", {"weights": w, "draws": n, "selection_counts": dict(got), "option": o, "weight_share": p})
            break
    rec.sample({"repr": rk, "genes": "mutated" if case["mutated"] else "fresh", "weights": w, "selection_counts": dict(got)}, cap=8)


def exhaustive(rng, rec):
    from collections import Counter

    which = rng.choice(["choice", "weighted", "shuffle", "pop", "bool"])
    if which == "choice":
        n = rng.choice([1, 2, 3, 4])
        opts = list(range(n))
        got = Counter(res for res, _ in sources.enumerate_runs(lambda s: s.choice(list(opts))))
        if got != Counter(opts):
            _viol("choice-not-uniform-over-all-draws", {"options": n, "selection_counts": dict(got)})
    elif which == "weighted":
        units = [rng.choice([0, 0, 1, 2, 3, 5]) for _ in range(rng.choice([1, 2, 3, 4]))]
        if sum(units) == 0:
            units[rng.randrange(len(units))] = 1
        w = [u * 0.00001 for u in units]
        opts = list(range(len(units)))
        reuse = rng.random() < 0.5  # a caller that keeps ONE weight list for all its calls (WeightedStringHandler's matrix rows)
        if reuse:
            rec.count("weighted_enumerations_with_reused_list")
            fresh = Counter(res for res, _ in sources.enumerate_runs(lambda s: s.choice_weighted(list(opts), list(w))))
            try:
                got = Counter(res for res, _ in itertools.islice(sources.enumerate_runs(lambda s: s.choice_weighted(opts, w)), 4 * sum(units) + 4))
            except sources.NotFiniteChoice as e:
                # with fresh copies of the same weights the draw space was finite: only the reuse of the list changed it
                _viol("choice_weighted-not-proportional-over-all-draws:reused-list", {"weights_in_units_of_1e-5": units, "with_fresh_copies": dict(fresh), "error": core.short(e), "weights_list_after_the_calls": list(w)})
                return
        else:
            got = Counter(res for res, _ in sources.enumerate_runs(lambda s: s.choice_weighted(list(opts), list(w))))
        exp = Counter({i: u for i, u in enumerate(units) if u})
        rec.count("zero_weight_offers", sum(got.values()) if 0 in units else 0)
        if got != exp:
            _viol("choice_weighted-not-proportional-over-all-draws" + (":reused-list" if reuse and w != [u * 0.00001 for u in units] else ""), {"weights_in_units_of_1e-5": units, "selection_counts": dict(got), "expected": dict(exp), "weights_list_after_the_calls": list(w)})
    elif which == "shuffle":
        n = rng.choice([0, 1, 2, 3, 4])
        got = Counter(tuple(res) for res, _ in sources.enumerate_runs(lambda s: s.shuffle(list(range(n)))))

        if set(got) != set(itertools.permutations(range(n))) or len(set(got.values())) > 1:
            _viol("shuffle-not-uniform-over-all-draws", {"n": n, "distinct_results": len(got), "counts": sorted(got.values())[:6]})
    elif which == "pop":
        n = rng.choice([1, 2, 3, 4])
        got = Counter(res for res, _ in sources.enumerate_runs(lambda s: s.pop_random(list(range(n)))))
        if got != Counter(range(n)):
            _viol("pop_random-not-uniform-over-all-draws", {"n": n, "selection_counts": dict(got)})
    else:
        got = Counter(res for res, _ in sources.enumerate_runs(lambda s: s.random_bool()))
        if got != Counter([True, False]):
            _viol("random_bool-not-both-values", {"counts": {str(k): v for k, v in got.items()}})
    rec.count("exhaustive_spaces")
    rec.sample({"exhaustive": which, "distinct_results": len(got), "draw_sequences": sum(got.values())}, cap=6)


def deciders(rng, rec):
    from geneticengine.representations.tree import initializations as I

    REC["impl"] = "native"
    for src in (core_native(rng), sources.ExtremeSource(rng.randrange(10**6))):
        class Plain(I.BaseDecider):  # BaseDecider is abstract only in the production choice
            def choose_production_alternatives(self, ty, alternatives, ctx):
                return alternatives[0]

        d = Plain(src, None)
        for _ in range(150):
            a, b = rng.choice(BOUNDS + [(0, 1002), (0, 2000), (-50, 99950), (7, 1008)])
            try:
                d.random_int(a, b)
            except core.CaseTimeout:
                raise
            except BaseException as e:  # noqa
                _viol(f"decider-random_int-raises:BaseDecider:{type(e).__name__}", {"min": a, "max": b, "error": core.short(e)})
        for _ in range(10):
            try:
                d.random_int()
            except BaseException as e:  # noqa
                _viol(f"decider-random_int-raises:BaseDecider:{type(e).__name__}", {"default_bounds": True, "error": core.short(e)})
        try:
            v = d.random_bool()
            if type(v) is not bool:
                _viol("decider-random_bool-not-bool:BaseDecider", {"result": core.short(v)})
            f = d.random_float()
            if type(f) is not float or math.isnan(f):
                _viol("decider-random_float-not-float:BaseDecider", {"result": core.short(f)})
        except BaseException as e:  # noqa
            _viol(f"decider-primitive-raises:BaseDecider:{type(e).__name__}", {"error": core.short(e)})
    # the string primitive of the decider interface: a string of the drawn characters (codes 32..128), the same for the same seed
    seed = rng.randrange(10**6)
    texts = []
    for _ in range(2):
        d = Plain(core_native(pyrandom.Random(seed)), None)
        try:
            texts.append([d.random_str() for _ in range(4)])
        except BaseException as e:  # noqa
            _viol(f"decider-primitive-raises:BaseDecider:random_str:{type(e).__name__}", {"error": core.short(e)})
            return
    rec.count("decider_random_str")
    rs = sources.RecordingSource(seed)
    d = Plain(rs, None)
    for _ in range(4):
        before = len(rs.calls)
        t = d.random_str()
        drawn = [c for c in rs.calls[before:] if c[0] == "randint" and tuple(c[1:3]) == (32, 128)]
        if type(t) is str and len(drawn) != len(t):
            # every character of the result is a draw from the source: a result that is longer (or shorter) than what was
            # drawn was not made from the source
            _viol("decider-random_str-not-made-of-the-drawn-characters:BaseDecider", {"result": core.short(t, 80), "characters_drawn": len(drawn), "length": len(t)})
            break
    for t in texts[0]:
        if type(t) is not str or any(not (32 <= ord(c) <= 128) for c in t):
            _viol("decider-random_str-not-a-string-of-drawn-characters:BaseDecider", {"result": core.short(t, 80)})
            break
    if texts[0] != texts[1]:
        _viol("decider-random_str-differs-for-the-same-seed:BaseDecider", {"first": core.short(texts[0], 80), "second": core.short(texts[1], 80)})


def decider_exhaustive(case, rec):
    """Every sequence of draws of BaseDecider.random_int, for every width in [lo, hi) and three placements of the range."""
    from geneticengine.representations.tree import initializations as I

    REC["impl"] = "scripted"

    class Plain(I.BaseDecider):
        def choose_production_alternatives(self, ty, alternatives, ctx):
            return alternatives[0]

    for w in range(case["lo"], case["hi"]):
        for a in (0, -(w // 2), 1):
            b = a + w
            runs = 0
            try:
                for res, log in sources.enumerate_runs(lambda s: Plain(s, None).random_int(a, b), max_runs=5000):
                    runs += 1
                    if isinstance(res, BaseException):
                        _viol(f"decider-random_int-raises:BaseDecider:{type(res).__name__}", {"min": a, "max": b, "draws": [x[0] for x in log], "error": core.short(res)})
            except (sources.NotFiniteChoice, sources.TooManyRuns):
                rec.count("decider_exhaustive_not_finite")
                continue
            rec.count("decider_widths_enumerated")
            rec.count("exhaustive_decider_draw_sequences", runs)
    rec.sample({"exhaustive": "BaseDecider.random_int", "widths": [case["lo"], case["hi"] - 1], "placements": "0.., centred, 1.."}, cap=6)


def core_native(rng):
    from geneticengine.random.sources import NativeRandomSource

    return NativeRandomSource(rng.randrange(10**6))


def dsge_decider(rng, rec):
    from geneticengine.representations.grammatical_evolution import dynamic_structured_ge as D

    REC["impl"] = "native"

    class G:
        all_nodes = set()

        def get_min_tree_depth(self):
            return 0

    geno = D.Genotype(core_native(rng), {int: gen_genes(rng)} if rng.random() < 0.5 else {})
    d = D.DynamicSGEDecider(geno, G(), 5)
    for _ in range(120):
        a, b = rng.choice(BOUNDS)  # equal bounds included: a draw from [a, a] is a
        try:
            d.random_int(a, b)
        except core.CaseTimeout:
            raise
        except BaseException as e:  # noqa
            _viol(f"decider-random_int-raises:DynamicSGEDecider:{type(e).__name__}", {"min": a, "max": b, "error": core.short(e)})
    # every value of a small range is reachable from SOME gene (both bounds are inclusive, as for BaseDecider)
    for a, b in ((0, 1), (0, 3), (-2, 2), (5, 5), (0, 10)):
        try:
            got = set()
            for gene in range(0, 3 * (b - a + 1) + 2):
                got.add(D.DynamicSGEDecider(D.Genotype(core_native(rng), {int: [gene]}), G(), 5).random_int(a, b))
            _r().count("decider_small_ranges_enumerated")
            missing = sorted(set(range(a, b + 1)) - got)
            if missing:
                _viol("decider-random_int-value-unreachable:DynamicSGEDecider", {"min": a, "max": b, "never_drawn": missing[:5]})
        except core.CaseTimeout:
            raise
        except BaseException as e:  # noqa
            _viol(f"decider-random_int-raises:DynamicSGEDecider:{type(e).__name__}", {"min": a, "max": b, "error": core.short(e)})
    try:
        v = d.random_bool()
        if type(v) is not bool:
            _viol("decider-random_bool-not-bool:DynamicSGEDecider", {"result": core.short(v)})
        t = d.random_str()
        _r().count("decider_random_str")
        if type(t) is not str or len(t) > getattr(d, "max_string_length", 128) or any(not (32 <= ord(c) <= 128) for c in t):
            _viol("decider-random_str-not-made-of-the-drawn-characters:DynamicSGEDecider", {"result": core.short(t, 80), "length": len(t) if type(t) is str else None})
    except BaseException as e:  # noqa
        _viol(f"decider-primitive-raises:DynamicSGEDecider:{type(e).__name__}", {"error": core.short(e)})


def same_seed(rng, rec):
    from geneticengine.random.sources import NativeRandomSource

    REC["impl"] = "native"
    seed = rng.randrange(10**6)
    a, b = NativeRandomSource(seed), NativeRandomSource(seed)
    ops = [(rng.choice(["randint", "random_float", "choice", "shuffle", "normalvariate", "random_bool", "choice_weighted", "pop_random"])) for _ in range(60)]
    outs = []
    for s in (a, b):
        r2 = pyrandom.Random(seed)
        o = []
        for op in ops:
            if op == "randint":
                lo, hi = r2.choice(BOUNDS)
                o.append(s.randint(lo, hi))
            elif op == "random_float":
                o.append(s.random_float(0.0, 10.0))
            elif op == "choice":
                o.append(s.choice(list(range(9))))
            elif op == "shuffle":
                o.append(tuple(s.shuffle(list(range(7)))))
            elif op == "normalvariate":
                o.append(s.normalvariate(0, 1))
            elif op == "random_bool":
                o.append(s.random_bool())
            elif op == "choice_weighted":
                o.append(s.choice_weighted(list(range(3)), [1, 2, 3]))
            else:
                o.append(s.pop_random(list(range(6))))
        outs.append(o)
    rec.count("same_seed_streams")
    if outs[0] != outs[1]:
        i = next(i for i, (x, y) in enumerate(zip(*outs)) if x != y)
        _viol("same-seed-different-stream", {"seed": seed, "first_divergence": i, "op": ops[i]})
