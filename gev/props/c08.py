"""C08 - same seed, same search: results are reproducible within and across processes."""

from __future__ import annotations

import json
import random as pyrandom
import subprocess

from gev import core, grammars

PROPERTY = "C08"
LEVEL = "exploration"
TECHNIQUE = "runtime monitor over process environments: the same search configuration is executed in fresh child interpreters started under different PYTHONHASHSEED values, allocators, heap padding before class definition, library import orders and grammar-definition positions; the oracle compares the full sequence of programs handed to the fitness function, the returned best and its fitness, between processes and between two runs inside one process"
RULE = (
    "cases = (algorithm in GP/RS/HC/1+1, representation, generated grammar with >= 4 productions, seed, evaluation budget) each run in >= 4 child processes "
    "(hash seed in {0,1,4242,random}, PYTHONMALLOC in {pymalloc,malloc}, 0/1000/50000 padding objects, permuted import order, grammar defined before/after the library); "
    "distinct_nontrivial = distinct (configuration, evaluation trace) pairs whose trace has at least 5 evaluations"
)
ASSUMPTIONS = [
    "wall-clock budgets are excluded (evaluation budgets only)",
    "a layout-dependent order that none of the sampled environments triggers is missed; ASLR adds its own variation",
    "programs are compared by canonical text, fitness by value",
]
PLAN = {
    "quick": {"shards": 8, "shard_timeout": 500, "case_timeout": 120, "configs": 64, "envs": 4, "max_case_timeouts": 2},
    "thorough": {"shards": 16, "shard_timeout": 3600, "case_timeout": 240, "configs": 1200, "envs": 6, "max_case_timeouts": 20},
}
THRESHOLDS = {
    "quick": {"configurations_compared": 35, "child_runs": 140, "set:environments": 6, "repr:tree": 4, "repr:ge": 4, "repr:sge": 4, "repr:dsge": 4, "repr:stack": 4, "alg:gp": 5, "alg:rs": 3, "alg:hc": 3, "alg:opo": 3, "gp_crossover_heavy:dsge": 5, "tracker:bare": 5, "tracker:with-recorder": 5, "focus:tree": 3, "multi_objective_configurations": 8, "focus:ge": 3, "focus:sge": 3, "focus:dsge": 9, "focus:stack": 3, "ring_recursion_configurations": 5, "same_named_classes_configurations": 3, "child_runs_after_an_earlier_problem": 60, "evaluations_traced": 2000, "distinct_programs_traced": 300},
    "thorough": {"configurations_compared": 380, "child_runs": 2200, "set:environments": 30},
}
REPRS = ["tree", "ge", "sge", "dsge", "stack"]


def gen_cases(tier, seed):
    rng = pyrandom.Random(f"c08-{seed}")
    n = PLAN[tier]["configs"]
    def rich(d):  # enough choice at the start symbol for set / address order to matter
        return sum(1 for p in d["prods"] if p.get("parent") == d["start"]) >= 3 and any(p["fields"] for p in d["prods"] if p.get("parent") == d["start"])

    a = [d for d in grammars.family(seed, n * 6, "general") if rich(d)]
    b = [d for d in grammars.family(seed + 5, n * 6, "weighted", with_fixed=False) if rich(d)]  # weighted grammars are rebuilt by update_weights
    descs = [x for pair in zip(a, b) for x in pair][:n]
    yield from focus_cases(rng, [d for d in descs if len(d["prods"]) >= 5] or descs, 4 if tier == "quick" else 40)
    for i, desc in enumerate(descs):
        envs = []
        for e in range(PLAN[tier]["envs"]):
            envs.append({"hashseed": ["0", "1", "4242", "random"][e % 4] if e else "0", "malloc": rng.choice(["pymalloc", "malloc"]) if e else "pymalloc", "padding": [0, 1000, 50000, 7][e % 4], "import_perm": e * 7, "grammar_first": e % 2 == 1})
        yield {"desc": desc, "repr": REPRS[i % 5], "decider": rng.choice(["maxdepth", "pigrow", "full", "progressive"]), "alg": ["gp", "rs", "gp", "hc", "gp", "opo"][(i // 5) % 6], "seed": rng.randrange(10**6), "budget": rng.choice([20, 30, 40]), "pop": rng.choice([3, 4, 6]), "extra_depth": rng.choice([2, 3, 4]), "step": rng.choice(["default", "cx", "cx"]), "tracker": rng.choice(["default", "default", "bare", "with-recorder"]), "envs": envs}


def _envs(rng, n):
    return [{"hashseed": ["0", "1", "4242", "random"][e % 4] if e else "0", "malloc": rng.choice(["pymalloc", "malloc"]) if e else "pymalloc", "padding": [0, 1000, 50000, 7, 300, 12345][e % 6], "import_perm": e * 7, "grammar_first": e % 2 == 1} for e in range(n)]


def focus_cases(rng, descs, per_repr):
    """Variation-heavy GP runs for every representation under ALL environment variants: orders that depend on hashes
    or addresses of type objects only matter once crossover / mutation meet several symbols, and flipping a two- or
    three-element order takes several differently laid-out processes."""
    k = 0
    rich = [d for d in descs if len(d["prods"]) >= 7] or descs
    for r in REPRS:
        # dSGE genotypes are dictionaries keyed by symbols that fill up lazily: the more kinds of symbols, the more often
        # two parents differ in their key sets - three times as many configurations, on the richer grammars
        for _ in range(per_repr * (3 if r == "dsge" else 1)):
            desc = (rich if r == "dsge" else descs)[k % len(rich if r == "dsge" else descs)]
            k += 1
            yield {"desc": desc, "repr": r, "decider": rng.choice(["maxdepth", "pigrow"]), "alg": "gp", "seed": rng.randrange(10**6), "budget": rng.choice([50, 70]), "pop": rng.choice([6, 8]), "extra_depth": rng.choice([3, 4]), "step": "cx", "tracker": "default", "envs": _envs(rng, 6), "focus": True}
    # deciders that consult the grammar ANALYSIS (recursive set, distances), on recursion that runs through several
    # categories: an analysis that depends on the visiting order of a set of classes shows here
    twins = next(d for d in grammars.FIXED if d["name"] == "fx_twins")
    for r in ("stack", "stack", "stack", "tree"):  # classes that tie on every NAME-based order
        yield {"desc": twins, "repr": r, "decider": "maxdepth", "alg": rng.choice(["gp", "rs"]), "seed": rng.randrange(10**6), "budget": 40, "pop": 6, "extra_depth": 3, "step": "default", "tracker": "default", "envs": _envs(rng, 6), "focus": True, "twins": True}
    for alg in ("rs", "hc", "gp", "opo") * 3:  # long multi-objective searches with coarse objectives: what the tracker keeps as its front
        yield {"desc": descs[0], "repr": "tree", "decider": "maxdepth", "alg": alg, "seed": rng.randrange(10**6), "budget": rng.choice([300, 400, 500]), "pop": 6, "extra_depth": 3, "step": "default", "tracker": "default", "envs": _envs(rng, 6), "focus": True, "multi": True}
    ring = next(d for d in grammars.FIXED if d["name"] == "fx_ring")
    for r, dec in (("tree", "full"), ("tree", "pigrow"), ("ge", "progressive"), ("sge", "full"), ("tree", "progressive"), ("ge", "pigrow")):
        yield {"desc": ring, "repr": r, "decider": dec, "alg": rng.choice(["gp", "rs"]), "seed": rng.randrange(10**6), "budget": 40, "pop": 6, "extra_depth": rng.choice([3, 5]), "step": "default", "tracker": "default", "envs": _envs(rng, 6), "focus": True, "ring": True}


def run_child(cfg, env):
    e = core.child_env({"PYTHONHASHSEED": env["hashseed"], "PYTHONMALLOC": env["malloc"]})
    c = dict(cfg)
    # every third environment first solves another problem over the same classes (process history is an environment too)
    c.update({"padding": env["padding"], "import_perm": env["import_perm"], "grammar_first": env["grammar_first"], "prelude": env["import_perm"] // 7 % 3 == 2})
    c.pop("envs", None)
    p = subprocess.run([core.PY, "-m", "gev.child_c08", json.dumps(c)], cwd=str(core.VERIF), env=e, capture_output=True, timeout=45, text=True)
    for ln in p.stdout.splitlines():
        if ln.startswith("GEVJSON "):
            return json.loads(ln[8:])
    return {"failed": p.stderr[-400:], "exit": p.returncode}


def has_kind(desc, kind):
    return f'"{kind}"' in json.dumps(desc)


def run_case(case, rec):
    results = []
    for env in case["envs"]:
        try:
            r = run_child(case, env)
        except subprocess.TimeoutExpired:
            rec.count("child_timeouts")
            continue
        if "failed" in r:
            rec.count("child_failures")
            rec.note_inconclusive(f"child failed: {core.short(r['failed'], 200)}")
            continue
        rec.count("child_runs")
        rec.count("evaluations")
        rec.count("evaluations_traced", r["n"])
        if env is case["envs"][0]:
            rec.count("distinct_programs_traced", len(set(r["trace"])))
        rec.set_add("environments", f"hs={env['hashseed']},malloc={env['malloc']},pad={env['padding']},perm={env['import_perm']},gfirst={env['grammar_first']}")
        if env["import_perm"] // 7 % 3 == 2:
            rec.count("child_runs_after_an_earlier_problem")
        results.append((env, r))
    if len(results) < 2:
        return
    rec.count("configurations_compared")
    rec.count(f"repr:{case['repr']}")
    rec.count(f"alg:{case['alg']}")
    rec.count(f"tracker:{case.get('tracker', 'default')}")
    wit = {"grammar": case["desc"]["name"], "repr": case["repr"], "decider": case["decider"], "alg": case["alg"], "step": case.get("step"), "tracker": case.get("tracker"), "seed": case["seed"], "budget": case["budget"]}
    if case["alg"] == "gp" and case.get("step") == "cx":
        rec.count(f"gp_crossover_heavy:{case['repr']}")
    if case.get("multi"):
        rec.count("multi_objective_configurations")
    if case.get("focus"):
        rec.count(f"focus:{case['repr']}")
    if case.get("ring"):
        rec.count("ring_recursion_configurations")
    if case.get("twins"):
        rec.count("same_named_classes_configurations")
    strs = "with-str-fields" if has_kind(case["desc"], "str") else "no-str-fields"
    for env, r in results:
        if not r["second_run_equal"]:
            rec.violation(f"irreproducible:within-process:{case['repr']}:{strs}", dict(wit, env=env, first_divergence=r["second_first_divergence"]))
            break
    base_env, base = results[0]
    for env, r in results[1:]:
        if r.get("error") != base.get("error"):
            rec.violation(f"irreproducible:across-processes:{case['repr']}:{strs}", dict(wit, env_a=base_env, env_b=env, error_a=base.get("error"), error_b=r.get("error")))
            break
        if r["trace"] != base["trace"] or r["best"] != base["best"] or r["fitness"] != base["fitness"]:
            i = next((k for k, (a, b) in enumerate(zip(base["trace"], r["trace"])) if a != b), min(len(base["trace"]), len(r["trace"])))
            rec.violation(
                f"irreproducible:across-processes:{case['repr']}:{strs}",
                dict(wit, env_a=base_env, env_b=env, first_diverging_evaluation=i, program_a=core.short(base["trace"][i] if i < len(base["trace"]) else None, 160), program_b=core.short(r["trace"][i] if i < len(r["trace"]) else None, 160), evaluations=[base["n"], r["n"]]),
            )
            break
    else:
        if base["n"] >= 5:
            rec.distinct_add([wit, base["trace_hash"]])
    rec.sample(dict(wit, evaluations=base["n"], best=core.short(base["best"], 100), fitness=base["fitness"], processes=len(results)), cap=4)
