"""C04 - depth-bounded creation reaches exactly the grammar's bounded language."""

from __future__ import annotations

import random as pyrandom

from gev import core, grammars, refmodel, sources, workload

PROPERTY = "C04"
LEVEL = "exploration"
EXHAUSTIVE = True
TECHNIQUE = "runtime monitor under an exhaustive scripted RandomSource: the real decider + create_node are re-executed for EVERY sequence of random decisions (odometer over the recorded draw domains) and the set of programs observed is compared with an independent enumeration of the well-typed, refinement-satisfying programs of depth <= d (missing = lost search space, extra = ill-formed reachable)"
RULE = (
    "cases = (finite-choice grammar from the bounded family: <= 3 abstract types, <= 3 fields, small int / name / list-size refinements, unions, tuples, bools, dependent pairs; "
    "creation mode in {grow, position-independent grow, full}; depth from the grammar minimum upwards while the language has <= 5000 programs and <= 200000 decision sequences); "
    "a (grammar, mode, depth) triple is 'exhaustive' when every decision sequence was executed; distinct_nontrivial = distinct (grammar, mode, depth) triples completed with a language of at least 2 programs"
)
ASSUMPTIONS = [
    "depth = longest chain of nested grammar nodes; the language contains exactly the well-typed, refinement-satisfying programs (dependent refinements on actual siblings)",
    "grow must reach exactly the language; position-independent grow and full must stay inside it",
    "full == 'all leaf nodes at the maximum depth' is required on grammars whose abstract types are all recursive, whose class-typed fields mention abstract types only and whose lists cannot be empty; where no program at all has every branch end at the limit, whatever full creation returns is only required to be in the language",
    "grammars whose draws are not finite (floats, ranges wider than 64, plain int/str) are skipped and counted, never guessed",
]
PLAN = {
    "quick": {"shards": 8, "shard_timeout": 500, "case_timeout": 60, "grammars": 70, "max_extra_depth": 2, "max_case_timeouts": 6},
    "thorough": {"shards": 16, "shard_timeout": 3600, "case_timeout": 200, "grammars": 2500, "max_extra_depth": 3, "max_case_timeouts": 150},
}
THRESHOLDS = {
    "quick": {"exhaustive_spaces": 150, "decision_sequences_executed": 20000, "programs_in_languages": 3000, "mode:grow": 80, "mode:pigrow": 30, "mode:full": 30, "frontier_spaces": 50, "full_exact_spaces": 5, "full_spaces_on_grammars_whose_types_skip_depths": 3, "languages_with_union_or_tuple": 20, "languages_with_lists": 20},
    "thorough": {"exhaustive_spaces": 2500, "decision_sequences_executed": 600000, "programs_in_languages": 80000},
}
LANG_CAP = 5000
RUN_CAP = 200000


def gen_cases(tier, seed):
    rng = pyrandom.Random(f"c04-{seed}")
    n = PLAN[tier]["grammars"]
    fixed = [FIXED_FINITE[i % len(FIXED_FINITE)] for i in range(len(FIXED_FINITE))]
    descs = fixed + [grammars.gen_descriptor(seed * 99991 + i, "finite") for i in range(n - len(fixed))]
    for desc in descs:
        for mode in ("grow", "grow", "pigrow", "full"):
            yield {"desc": desc, "mode": mode, "max_extra": PLAN[tier]["max_extra_depth"], "s": rng.randrange(10**6)}


FIXED_FINITE = [
    {  # an operand that is an expression or a small constant
        "name": "fin_full_union_primitive",
        "abstracts": [{"name": "Expr", "parent": None, "style": "abc"}],
        "prods": [
            {"name": "Leaf", "parent": "Expr", "fields": []},
            {"name": "Add", "parent": "Expr", "fields": [["left", ["ref", "Expr"]], ["right", ["union", ["ref", "Expr"], ["ann", ["int"], ["IntRange", 0, 1]]]]]},
        ],
        "start": "Expr",
    },
    {  # every abstract type is recursive, but G's trees have odd depths only (G -> GLit | GW(H), H -> HB(G)): a production
        # that is 'recursive and shallow enough' cannot always be filled to exactly the remaining depth
        "name": "fin_full_gap",
        "abstracts": [{"name": "E", "parent": None, "style": "abc"}, {"name": "G", "parent": None, "style": "abc"}, {"name": "H", "parent": None, "style": "abc"}],
        "prods": [
            {"name": "Lit", "parent": "E", "fields": []},
            {"name": "Neg", "parent": "E", "fields": [["e", ["ref", "E"]]]},
            {"name": "Two", "parent": "E", "fields": [["e", ["ref", "E"]], ["g", ["ref", "G"]]]},
            {"name": "GLit", "parent": "G", "fields": []},
            {"name": "GW", "parent": "G", "fields": [["h", ["ref", "H"]]]},
            {"name": "HB", "parent": "H", "fields": [["g", ["ref", "G"]]]},
        ],
        "start": "E",
    },
    {  # a union offering a (sized) LIST of statements next to a single statement: full creation has to take both
        "name": "fin_full_union_list",
        "abstracts": [{"name": "Stmt", "parent": None, "style": "abc"}],
        "prods": [
            {"name": "Skip", "parent": "Stmt", "fields": []},
            {"name": "Block", "parent": "Stmt", "fields": [["body", ["union", ["ann", ["list", ["ref", "Stmt"]], ["ListSizeBetween", 2, 2]], ["ref", "Stmt"]]]]},
        ],
        "start": "Stmt",
    },
    {  # mutual recursion in which B's SHALLOWEST derivation goes back through A while a deeper one avoids it
        "name": "fin_mutual_back",
        "abstracts": [{"name": "A", "parent": None, "style": "abc"}, {"name": "B", "parent": None, "style": "abc"}],
        "prods": [
            {"name": "Leaf", "parent": "A", "fields": [["v", ["ann", ["int"], ["IntRange", 0, 1]]]]},
            {"name": "Wrap", "parent": "A", "fields": [["b", ["ref", "B"]]]},
            {"name": "Back", "parent": "B", "fields": [["a", ["ref", "A"]]]},
            {"name": "Far", "parent": "B", "fields": [["p", ["ref", "Pair"]]]},
            {"name": "Pair", "parent": None, "fields": [["x", ["ref", "Leaf"]], ["y", ["ref", "Leaf"]]]},
        ],
        "start": "A",
    },
    {  # the same shape entered at B, and with a third category of minimum depth 2 as the deeper exit
        "name": "fin_mutual_back3",
        "abstracts": [{"name": "A", "parent": None, "style": "abc"}, {"name": "B", "parent": None, "style": "abc"}, {"name": "C", "parent": None, "style": "decorator"}],
        "prods": [
            {"name": "Leaf", "parent": "A", "fields": []},
            {"name": "Wrap", "parent": "A", "fields": [["b", ["ref", "B"]], ["k", ["bool"]]]},
            {"name": "Back", "parent": "B", "fields": [["a", ["ref", "A"]]]},
            {"name": "Out", "parent": "B", "fields": [["c", ["ref", "C"]]]},
            {"name": "Deep", "parent": "C", "fields": [["l", ["ref", "Leaf"]]]},
        ],
        "start": "B",
    },
    {  # nested abstract layer and a union offering an abstract type next to a leaf: full creation must keep growing
        "name": "fin_nested_abstract",
        "abstracts": [{"name": "Expr", "parent": None, "style": "abc"}, {"name": "Op", "parent": "Expr", "style": "decorator"}],
        "prods": [
            {"name": "Leaf", "parent": "Expr", "fields": []},
            {"name": "Node", "parent": "Op", "fields": [["l", ["ref", "Expr"]], ["r", ["ref", "Expr"]]]},
            {"name": "Wrap", "parent": "Op", "fields": [["e", ["union", ["ref", "Expr"], ["ref", "Op"]]], ["b", ["bool"]]]},
        ],
        "start": "Expr",
    },
    {  # union nested under a refined list, members of different minimum depth
        "name": "fin_nested",
        "abstracts": [{"name": "Stmt", "parent": None, "style": "abc"}, {"name": "Expr", "parent": None, "style": "abc"}],
        "prods": [
            {"name": "Ret", "parent": "Stmt", "fields": [["e", ["ref", "Expr"]]]},
            {"name": "Block", "parent": "Stmt", "fields": [["body", ["ann", ["list", ["union", ["ref", "Expr"], ["ref", "Stmt"]]], ["ListSizeBetween", 1, 2]]]]},
            {"name": "Lit", "parent": "Expr", "fields": [["v", ["ann", ["int"], ["IntRange", 0, 1]]]]},
            {"name": "Var", "parent": "Expr", "fields": [["n", ["ann", ["str"], ["VarRange", ["x", "y"]]]]]},
        ],
        "start": "Stmt",
    },
    {
        "name": "fin_arith",
        "abstracts": [{"name": "Root", "parent": None, "style": "abc"}],
        "prods": [
            {"name": "Leaf", "parent": "Root", "fields": []},
            {"name": "Lit", "parent": "Root", "fields": [["v", ["ann", ["int"], ["IntRange", 0, 1]]]]},
            {"name": "Plus", "parent": "Root", "fields": [["l", ["ref", "Root"]], ["r", ["ref", "Root"]]]},
        ],
        "start": "Root",
    },
    {
        "name": "fin_kinds",
        "abstracts": [{"name": "Root", "parent": None, "style": "abc"}],
        "prods": [
            {"name": "Leaf", "parent": "Root", "fields": []},
            {"name": "B", "parent": "Root", "fields": [["b", ["bool"]]]},
            {"name": "U", "parent": "Root", "fields": [["u", ["union", ["ref", "Neg"], ["ref", "Leaf"]]]]},
            {"name": "Neg", "parent": "Root", "fields": [["e", ["ref", "Root"]]]},
            {"name": "T", "parent": "Root", "fields": [["t", ["tuple", ["bool"], ["ann", ["int"], ["IntList", [7, 9]]]]]]},
            {"name": "L", "parent": "Root", "fields": [["xs", ["ann", ["list", ["ref", "Root"]], ["ListSizeBetween", 0, 2]]]]},
        ],
        "start": "Root",
    },
    {
        "name": "fin_dep",
        "abstracts": [{"name": "R", "parent": None, "style": "abc"}],
        "prods": [
            {"name": "End", "parent": "R", "fields": []},
            {"name": "Pair", "parent": "R", "fields": [["a", ["ann", ["int"], ["IntRange", 0, 2]]], ["b", ["dep", ["int"], "a", "intrange_up", 1]]]},
            {"name": "Named", "parent": "R", "fields": [["n", ["ann", ["int"], ["IntRange", 0, 2]]], ["name", ["dep", ["str"], "n", "varrange_n", 0]]]},
            {"name": "Two", "parent": "R", "fields": [["x", ["ref", "R"]], ["y", ["ref", "R"]]]},
        ],
        "start": "R",
    },
    {
        "name": "fin_layers",
        "abstracts": [{"name": "E", "parent": None, "style": "abc"}, {"name": "N", "parent": "E", "style": "decorator"}, {"name": "B", "parent": None, "style": "decorator"}],
        "prods": [
            {"name": "One", "parent": "N", "fields": []},
            {"name": "Var", "parent": "N", "fields": [["s", ["ann", ["str"], ["VarRange", ["x", "y"]]]]]},
            {"name": "Add", "parent": "E", "fields": [["l", ["ref", "E"]], ["r", ["ref", "N"]]]},
            {"name": "If", "parent": "E", "fields": [["c", ["ref", "B"]], ["t", ["ref", "E"]]]},
            {"name": "Tr", "parent": "B", "fields": []},
            {"name": "Not", "parent": "B", "fields": [["b", ["ref", "B"]]]},
            {"name": "Top", "parent": None, "fields": [["e", ["ref", "E"]], ["k", ["ann", ["int"], ["IntRange", 0, 1]]]]},
        ],
        "start": "Top",
    },
]


def full_eligible(desc, model=None):
    """'Where every abstract type is recursive ... full creation produces exactly the programs all of whose branches
    end at the maximum depth' is exact when: the start symbol is abstract, every production belongs to an abstract
    type, class-typed fields mention abstract types only, no list may be empty, there are no dependent refinements,
    every abstract type is recursive with minimum depth 1, and every production with class-typed fields is recursive
    with minimum depth 2 (so it fits wherever a leaf does not have to be taken)."""
    names_abs = {a["name"] for a in desc["abstracts"]}
    if desc["start"] not in names_abs or not all(p.get("parent") in names_abs for p in desc["prods"]):
        return False

    def ok(t):
        if t[0] == "ref":
            return t[1] in names_abs
        if t[0] == "ann" and t[1][0] == "list":
            return t[2][1] >= 1 and ok(t[1][1])
        if t[0] in ("list", "dep"):
            return False
        if t[0] == "ann":
            return ok(t[1])
        return all(ok(x) for x in t[1:] if isinstance(x, list) and x and isinstance(x[0], str))

    if not all(ok(t) for p in desc["prods"] for _, t in p["fields"]):
        return False
    if model is None:
        return False
    hi, _ = model.mindepth_table(False)
    rec_set = set(model.recursive())
    kind = "exact"
    for c in model.registered:
        if c not in model.reachable():
            continue
        if refmodel.is_abs(c):
            if c not in rec_set:
                return False  # the clause speaks about grammars in which EVERY abstract type is recursive
            if hi[c] != 1:
                kind = "gaps"
        elif any(model.classes_in(t) for _, t in model.fields(c)):
            if c not in rec_set or hi[c] != 2:
                kind = "gaps"
    # "gaps": every abstract type is recursive, but some type cannot be filled to EVERY depth above its minimum (its
    # trees skip depths, or a production only fits at some depths); violations there carry the grammar kind in their
    # mechanism, so that the gapless family keeps deciding everything else about full creation
    return kind


def _union_with_a_node_free_member(desc):
    """A union field offering a class next to a value that holds no node (a number, a refined number, a bool)."""

    def walk(t):
        if isinstance(t, list) and t and isinstance(t[0], str):
            if t[0] == "union":
                kinds = {"ref" if _has_ref(m) else "free" for m in t[1:]}
                if kinds == {"ref", "free"}:
                    return True
            return any(walk(x) for x in t[1:])
        return False

    def _has_ref(t):
        return isinstance(t, list) and bool(t) and (t[0] == "ref" or any(_has_ref(x) for x in t[1:] if isinstance(x, list)))

    return any(walk(t) for p in desc["prods"] for _, t in p["fields"])


def leaves_at(model, v, d, depth=1):
    """True iff every leaf node (a node without node children) sits at depth exactly d."""
    kids = []

    def collect(x):
        if isinstance(x, (list, tuple)):
            for y in x:
                collect(y)
        elif type(x) in model.registered:
            kids.append(x)

    for x in model.children(v):
        collect(x)
    if not kids:
        return depth == d
    return all(leaves_at(model, k, d, depth + 1) for k in kids)


def run_case(case, rec):
    desc = case["desc"]
    built = grammars.materialise(desc)
    try:
        try:
            g = grammars.extract(built)
        except BaseException:  # noqa
            rec.count("extract_failed")
            return
        model = refmodel.Model(built.classes, built.start)
        mn = g.get_min_tree_depth()
        if mn >= 1000000:
            return
        hi, _ = model.mindepth_table(False)
        for extra in range(0, case["max_extra"] + 1):
            d = mn + extra
            if not one_space(case, rec, built, g, model, d, extra == 0):
                break
        # the documented way of configuring a grammar - `Prod.__init__.__annotations__[field] = NewType`, then a new
        # extraction - applied to the SAME class objects after they have served a first grammar: creation has to reach
        # the language of the grammar as it is declared NOW
        d2 = grammars.retyped(desc, pyrandom.Random(case["s"]))
        if d2 is not None:
            b2 = grammars.apply_retype(built, d2)
            try:
                g2 = grammars.extract(b2)
                mn2 = g2.get_min_tree_depth()
            except core.CaseTimeout:
                raise
            except BaseException:  # noqa
                return
            if mn2 < 1000000:
                rec.count("redeclared_grammars_enumerated")
                one_space(dict(case, desc=d2), rec, b2, g2, refmodel.Model(b2.classes, b2.start), mn2, True)
    finally:
        built.dispose()


def one_space(case, rec, built, g, model, d, frontier):
    """Enumerates one (grammar, mode, depth) space. Returns False when the space is too large to continue deeper."""
    from geneticengine.problems import SingleObjectiveProblem
    from geneticengine.representations.tree.operators import FullInitializer
    from geneticengine.representations.tree.treebased import TreeBasedRepresentation

    desc, mode = case["desc"], case["mode"]
    try:
        lang = model.language(built.start, d, cap=LANG_CAP)
    except refmodel.NotFinite:
        rec.count("not_finite_skipped")
        return False
    lang = [t for t in dict.fromkeys(lang)]
    # programs that must be reachable under BOTH readings of "minimum depth of a list that may be empty"
    must = set(model.language(built.start, d, cap=LANG_CAP, conservative_lists=True))
    model.language(built.start, 0, conservative_lists=False)
    if len(lang) > LANG_CAP:
        rec.count("language_too_large_skipped")
        return False
    langset = set(lang)
    reach: dict = {}
    failures = []
    runs = 0
    prob = SingleObjectiveProblem(lambda p: 0.0)

    def create(src):
        if mode == "full":
            rep = TreeBasedRepresentation(g, workload.make_decider("maxdepth", src, g, max(d, g.get_min_tree_depth())))
            return next(iter(FullInitializer(d).initialize(prob, rep, src, 1))).genotype
        dec = workload.make_decider("maxdepth" if mode == "grow" else "pigrow", src, g, d)
        return TreeBasedRepresentation(g, dec).create_genotype(src)

    try:
        for res, log in sources.enumerate_runs(create, max_runs=RUN_CAP):
            runs += 1
            if isinstance(res, BaseException):
                failures.append((res, [x[0] for x in log]))
                continue
            reach.setdefault(model.canon(res), (res, [x[0] for x in log]))
    except sources.NotFiniteChoice:
        rec.count("not_finite_skipped")
        return False
    except sources.TooManyRuns:
        rec.count("too_many_decision_sequences_skipped")
        return False
    rec.count("exhaustive_spaces")
    rec.count("evaluations")
    rec.count(f"mode:{mode}")
    rec.count("decision_sequences_executed", runs)
    rec.count("programs_in_languages", len(lang))
    if frontier:
        rec.count("frontier_spaces")
    text = str(desc)
    if "'union'" in text or "'tuple'" in text:
        rec.count("languages_with_union_or_tuple")
    if "'list'" in text:
        rec.count("languages_with_lists")
    wit = {"grammar": desc["name"], "mode": mode, "depth": d, "grammar_min": g.get_min_tree_depth(), "language_size": len(lang), "decision_sequences": runs, "reached": len(reach)}
    for e, trail in failures[:2]:
        if core.is_library_error(e):
            rec.count("library_errors_during_enumeration")
            continue
        rec.violation(f"{mode}:decision-sequence-raises:{type(e).__name__}@{core.exc_site(e)}", dict(wit, draws=trail[:30], error=core.short(e)))
    extra = [t for t in reach if t not in langset]
    for t in extra[:2]:
        prog, trail = reach[t]
        dp = model.depth(prog)
        why = "too-deep" if dp > d else ("ill-typed" if model.welltyped(prog, built.start) else ("refinement" if model.refinement_violations(prog, built.start) else "not-in-language"))
        rec.violation(f"{mode}:extra:{why}", dict(wit, program=core.short(t, 300), draws=trail[:30], program_depth=dp))
    if mode == "grow":
        missing = [t for t in lang if t not in reach and t in must]
        rec.count("unreached_only_under_the_empty_list_reading", sum(1 for t in lang if t not in reach and t not in must))
        for t in missing[:2]:
            td = model.text_depth(t)
            rec.violation(f"grow:missing:{'at-frontier' if td == d else 'below-frontier'}", dict(wit, program=core.short(t, 300), program_depth=td, missing=len(missing)))
    elif mode == "full" and full_eligible(desc, model):
        kind = full_eligible(desc, model)
        sfx = "" if kind == "exact" else ":grammar-whose-types-skip-depths"
        if "'union', ['ann', ['list'" in str(desc) or "'union', ['list'" in str(desc) or "'union', ['tuple'" in str(desc):
            sfx += ":union-with-a-list-or-tuple-member"
        if _union_with_a_node_free_member(desc):
            sfx += ":union-with-a-node-free-member"  # keep this suffix LAST (known_findings.json matches on it)
        full = {t for t, (prog, _) in reach.items() if True}
        expected = set()
        # the full language: language members whose leaf nodes all sit at depth d (decided on reached programs and,
        # for unreached ones, on their text)
        for t in lang:
            if t in reach:
                if leaves_at(model, reach[t][0], d):
                    expected.add(t)
            elif _text_leaves_at(t, d):
                expected.add(t)
        rec.count("full_exact_spaces")
        if kind != "exact":
            rec.count("full_spaces_on_grammars_whose_types_skip_depths")
        if not expected:
            # no program of this grammar has all its branches end at exactly this depth: creation has to return something
            rec.count("full_spaces_without_any_full_program")
        else:
            for t in sorted(expected - full)[:2]:
                rec.violation("full:missing-full-program" + sfx, dict(wit, program=core.short(t, 300), full_language=len(expected)))
            for t in sorted(full - expected)[:2]:
                if t in langset:
                    rec.violation("full:reaches-program-with-a-branch-ending-early" + sfx, dict(wit, program=core.short(t, 300), draws=reach[t][1][:30], full_language=len(expected)))
    if len(lang) >= 2:
        rec.distinct_add([desc["name"], mode, d])
    rec.sample(dict(wit, exhaustive=True, example=lang[min(1, len(lang) - 1)][:120] if lang else None), cap=5)
    return len(lang) * 4 < LANG_CAP


def _text_leaves_at(t, d):
    """On a canonical text: every node without nested node sits at nesting depth d."""
    depth = 0
    stack = []
    prev_alnum = False
    ok = True
    i = 0
    had_child = []
    for ch in t:
        if ch == "(":
            stack.append(prev_alnum)
            if prev_alnum:
                depth += 1
                if had_child:
                    had_child[-1] = True
                had_child.append(False)
        elif ch == ")":
            if stack.pop():
                if not had_child.pop() and depth != d:
                    ok = False
                depth -= 1
        prev_alnum = ch.isalnum() or ch == "_"
        i += 1
    return ok
