"""C09 - operators and steps never modify their inputs."""

from __future__ import annotations

import random as pyrandom

from gev import core, grammars, refmodel, stream, workload

PROPERTY = "C09"
LEVEL = "exploration"
TECHNIQUE = "runtime monitor: deep structural snapshots (program structure, genes, per-node gengy_* metadata and synthesis context, fitness_store, cached phenotype, population order) of every argument before each public operator / step call, compared after the call, after the result was consumed and evaluated, and again at the end of the history; dynamic-SGE sessions in which operators meet never-mapped genotypes (only a mapping may extend a genotype, prefix-preserving); NaN-safe fitness snapshots"
RULE = (
    "op cases = (generated grammar, representation, decider, seed, sequence of create/map/mutate/crossover); step cases = (grammar, representation, "
    "random nesting of the built-in steps incl. elitism/novelty/tournament/lexicase/mutation/crossover/sequence/parallel/exclusive-parallel, population, "
    "3-12 generations with results consumed and evaluated); distinct_nontrivial = distinct (representation, step composition or op kind, snapshot) triples whose "
    "operation produced at least one new individual"
)
ASSUMPTIONS = [
    "allowed effects: fitness_store may gain an entry (never change one); the phenotype cache may go None -> value; Individual.metadata['generation'] is written by Population, not by an operator",
    "dSGE genotypes are mapped before the first snapshot (on-demand extension is a permitted effect of mapping)",
]
PLAN = {
    "quick": {"shards": 8, "shard_timeout": 400, "case_timeout": 30, "grammars": 160, "max_case_timeouts": 3},
    "thorough": {"shards": 16, "shard_timeout": 3600, "case_timeout": 60, "grammars": 7000, "max_case_timeouts": 80},
}
THRESHOLDS = {
    "quick": {"step_cases_with_hand_written_programs": 5, "step_cases_whose_fitness_function_reuses_its_result_list": 5, "arguments_compared": 5000, "end_of_history_compared": 3000, "step_applications": 800, "tree_nodes_snapshotted": 20000, "kind:tree": 500, "kind:ge": 300, "kind:sge": 300, "kind:dsge": 300, "kind:stack": 100, "set:step_kinds": 8, "lazy_dsge_sessions": 50, "step_cases_with_nan_or_infinite_fitness": 15, "operator_arguments_never_mapped": 100},
    "thorough": {"arguments_compared": 100000, "end_of_history_compared": 60000, "step_applications": 15000},
}


def gen_cases(tier, seed):
    rng = pyrandom.Random(f"c09-{seed}")
    for desc in grammars.family(seed, PLAN[tier]["grammars"], "general"):
        for rk, dk in workload.config_grid(rng):
            yield {"kind": "ops", "desc": desc, "repr": rk, "decider": dk, "extra_depth": rng.choice([1, 2, 3]), "seed": rng.randrange(10**6), "nops": rng.randint(12, 30)}
        # dSGE genotypes grow on demand: aliasing between a child and a parent only shows when the child is mapped later
        yield {"kind": "ops", "desc": desc, "repr": "dsge", "decider": "own", "extra_depth": rng.choice([2, 3, 4]), "seed": rng.randrange(10**6), "nops": 40, "crossover_heavy": True}
        yield {"kind": "ops", "desc": desc, "repr": "dsge", "decider": "own", "extra_depth": rng.choice([1, 2, 3]), "seed": rng.randrange(10**6), "nops": 24, "lazy": True}
        rk = rng.choice(workload.REPRS)
        yield {"kind": "steps", "desc": desc, "repr": rk, "decider": rng.choice(["maxdepth", "pigrow", "progressive"]), "extra_depth": rng.choice([1, 2, 3]), "seed": rng.randrange(10**6), "pop": rng.choice([2, 3, 5, 8, 11]), "gens": rng.randint(3, 12), "multi": rng.random() < 0.3, "odd_values": rng.random() < 0.25}


# ------------------------------------------------------------------------------------ snapshots


def snap_tree(model, v, rec=None, d=0):
    """Structure + per-node metadata + synthesis context, as a nested tuple."""
    if d > 3000:
        return "<deep>"
    if isinstance(v, list):
        meta = _meta(v)
        return ("list", type(v).__name__, meta, tuple(snap_tree(model, x, rec, d + 1) for x in v))
    if type(v) is tuple:
        return ("tuple", tuple(snap_tree(model, x, rec, d + 1) for x in v))
    if type(v) in refmodel.BASE or v is None:
        return (type(v).__name__, repr(v))
    c = type(v)
    if rec is not None:
        rec.count("tree_nodes_snapshotted")
    init = getattr(v, "gengy_init_values", None)
    init_ids = tuple(id(x) for x in init) if init is not None else None
    fields = tuple((n, snap_tree(model, x, rec, d + 1)) for n, _, x in model.field_values(v, c)) if c in model.registered else ()
    return (c.__name__, _meta(v), init_ids, fields)


def _meta(v):
    ctx = getattr(v, "gengy_synthesis_context", None)
    idx = getattr(v, "gengy_types_this_way", None)
    return (
        getattr(v, "gengy_labeled", None),
        getattr(v, "gengy_nodes", None),
        getattr(v, "gengy_distance_to_term", None),
        getattr(v, "gengy_weighted_nodes", None),
        tuple(sorted((getattr(k, "__name__", str(k)), tuple(id(o) for o in lst)) for k, lst in idx.items())) if idx is not None else None,
        (ctx.depth, ctx.nodes, ctx.expansions) if ctx is not None else None,
    )


def snap_genotype(kind, model, g, rec=None):
    if kind == "tree":
        return snap_tree(model, g, rec)
    if kind in ("ge", "stack"):
        return (id(g.dna), tuple(g.dna))
    # keys are type objects; two different keys may PRINT alike (unions over look-alike annotations): keep them apart
    return tuple((f"{k}#{id(k)}", id(v), tuple(v)) for k, v in g.dna.items())


def dsge_extends(s0, s1):
    """dSGE: s1 is s0 after on-demand extension by a MAPPING - same list objects, every old gene in place, new genes
    (and new keys) only appended."""
    d1 = {k: (i, genes) for k, i, genes in s1}
    for k, i, genes in s0:
        if k not in d1 or d1[k][0] != i or d1[k][1][: len(genes)] != genes:
            return False
    return True


def handwritten(node):
    """The same program built again through the classes' own constructors - no gengy_* attribute anywhere (None: a node
    that is no dataclass, whose constructor arguments cannot be read off it)."""
    import dataclasses

    if isinstance(node, list):
        items = [handwritten(x) for x in node]
        return None if any(i is None for i in items) else items
    if isinstance(node, tuple):
        items = [handwritten(x) for x in node]
        return None if any(i is None for i in items) else tuple(items)
    if dataclasses.is_dataclass(node) and not isinstance(node, type):
        kw = {}
        for f in dataclasses.fields(node):
            v = handwritten(getattr(node, f.name))
            if v is None:
                return None
            kw[f.name] = v
        try:
            return type(node)(**kw)
        except Exception:  # noqa
            return None
    if isinstance(node, (bool, int, float, str)):
        return node
    return None


def snap_individual(kind, model, ind, rec=None):
    # floats by repr: a cached NaN compares unequal to itself and would read as a change
    fs = tuple(sorted((id(p), (repr(f.maximizing_aggregate), tuple(repr(c) for c in f.fitness_components))) for p, f in ind.fitness_store.items()))
    ph = None if ind.phenotype is None else model.canon(ind.phenotype)
    return {"genotype": snap_genotype(kind, model, ind.genotype, rec), "fitness": fs, "phenotype": ph, "metadata": tuple(sorted((k, repr(v)) for k, v in ind.metadata.items() if k != "generation"))}


def diff_individual(a, b):
    out = []
    if a["genotype"] != b["genotype"]:
        out.append("genotype")
    if a["phenotype"] is not None and a["phenotype"] != b["phenotype"]:
        out.append("phenotype-cache")
    fa, fb = dict(a["fitness"]), dict(b["fitness"])
    if any(k not in fb or fb[k] != v for k, v in fa.items()):
        out.append("cached-fitness")
    if a["metadata"] != b["metadata"]:
        out.append("metadata")
    return out


def which_part(a, b):
    """For tree snapshots: names what differs first (structure / metadata)."""
    if not (isinstance(a, tuple) and isinstance(b, tuple)) or len(a) != len(b):
        return "structure"
    if a and a[0] == "list" and b and b[0] == "list":
        if a[2] != b[2]:
            return "node-metadata"
        if len(a[3]) != len(b[3]):
            return "structure"
        for x, y in zip(a[3], b[3]):
            if x != y:
                return which_part(x, y)
        return "structure"
    if len(a) == 4 and isinstance(a[3], tuple) and isinstance(b[3], tuple):
        if a[0] != b[0]:
            return "structure"
        if a[1] != b[1]:
            return "node-metadata"
        if a[2] != b[2]:
            return "init-values"
        for (n1, x), (n2, y) in zip(a[3], b[3]):
            if x != y:
                return which_part(x, y)
    return "structure"


# ------------------------------------------------------------------------------------ drivers


def run_case(case, rec):
    ctx = stream.open_case(case, rec)
    if ctx is None:
        return
    try:
        if case["kind"] == "ops":
            run_ops(ctx, case, rec)
        else:
            run_steps(ctx, case, rec)
    finally:
        ctx.built.dispose()


def run_ops(ctx, case, rec):
    kind = case["repr"]
    model = ctx.model
    src = workload.native(case["seed"])
    try:
        rep = workload.make_repr(kind, ctx.grammar, case["decider"] if case["decider"] != "own" else "maxdepth", ctx.max_depth, src)
    except BaseException:  # noqa
        rec.count("config_rejected")
        return
    born: dict = {}  # id(genotype) -> (genotype, snapshot when produced)
    wit = {"grammar": case["desc"]["name"], "repr": kind, "decider": case["decider"]}

    def before(op, inputs):
        return [snap_genotype(kind, model, g, rec) for g in inputs]

    lazy = bool(case.get("lazy"))  # dSGE genotypes reach the operators WITHOUT having been mapped before

    def on_event(ev):
        rec.count("evaluations")
        if ev.op in ("mutate", "crossover", "map"):
            for g, s0 in zip(ev.inputs, ev.token or []):
                rec.count("arguments_compared")
                rec.count(f"kind:{kind}")
                s1 = snap_genotype(kind, model, g)
                if lazy and ev.op == "map":
                    # the one permitted effect: the mapping extends the genotype it maps
                    if not dsge_extends(s0, s1):
                        rec.violation(f"input-modified:{kind}:map:genes-rewritten", dict(wit, op=ev.op, failed=ev.exc is not None))
                    continue
                if lazy and ev.op in ("mutate", "crossover"):
                    rec.count("operator_arguments_never_mapped" if not any(genes for _, _, genes in s0) else "operator_arguments_lazy")
                if s0 != s1:
                    part = which_part(s0, s1) if kind == "tree" else "genes"
                    rec.violation(f"input-modified:{kind}:{ev.op}:{part}", dict(wit, op=ev.op, failed=ev.exc is not None))
        if ev.exc is None:
            for g in ev.outputs:
                if kind == "dsge" and not lazy:
                    try:
                        rep.genotype_to_phenotype(g)  # extension happens here, before the first snapshot
                    except core.CaseTimeout:
                        raise  # the watchdog cut the mapping short: the case is not judged (a half-extended genotype)
                    except BaseException:  # noqa
                        pass
                if id(g) not in born or not lazy:
                    born[id(g)] = (g, snap_genotype(kind, model, g, rec))
            if ev.outputs:
                rec.distinct_add([kind, ev.op, core.h(repr(born[id(ev.outputs[0])][1]))])

    sess = workload.Session(kind, rep, src, on_event, before)
    ops = workload.gen_ops(pyrandom.Random(case["seed"]), case["nops"], map_after_create=not lazy)
    if lazy:
        rec.count("lazy_dsge_sessions")
    if case.get("crossover_heavy"):
        r2 = pyrandom.Random(case["seed"] + 1)
        ops = [["create"] for _ in range(6)] + [["map", i] for i in range(6)]
        for _ in range(case["nops"]):
            ops.append(["crossover", r2.randrange(1000), r2.randrange(1000)])
            if r2.random() < 0.3:
                ops.append(["mutate", r2.randrange(1000)])
        rec.count("crossover_heavy_sessions")
    sess.run_ops(ops)
    # once produced, a genotype never changes (catches aliasing that a LATER operation mutates)
    for g, s0 in born.values():
        rec.count("end_of_history_compared")
        s1 = snap_genotype(kind, model, g)
        if lazy:
            if not dsge_extends(s0, s1):
                rec.violation(f"changed-after-production:{kind}:genes-rewritten", dict(wit))
            continue
        if s0 != s1:
            part = which_part(s0, s1) if kind == "tree" else "genes"
            rec.violation(f"changed-after-production:{kind}:{part}", dict(wit))
    rec.sample({"grammar": case["desc"]["name"], "repr": kind, "api_calls": sess.n, "genotypes_tracked": len(born)})


def random_step(rng, depth=0, multi=False):
    from geneticengine.algorithms.gp.operators.combinators import ExclusiveParallelStep, ParallelStep, SequenceStep
    from geneticengine.algorithms.gp.operators.crossover import GenericCrossoverStep
    from geneticengine.algorithms.gp.operators.elitism import ElitismStep
    from geneticengine.algorithms.gp.operators.mutation import GenericMutationStep
    from geneticengine.algorithms.gp.operators.novelty import NoveltyStep
    from geneticengine.algorithms.gp.operators.selection import LexicaseSelection, TournamentSelection

    r = rng.random()
    if depth >= 2 or r < 0.55:
        k = rng.choice(["elitism", "novelty", "tournament", "mutation", "crossover", "lexicase" if multi else "tournament"])
        if k == "elitism":
            return ElitismStep(), "elitism"
        if k == "novelty":
            return NoveltyStep(), "novelty"
        if k == "tournament":
            return TournamentSelection(rng.choice([1, 2, 3, 5]), with_replacement=rng.random() < 0.5), "tournament"
        if k == "lexicase":
            return LexicaseSelection(epsilon=rng.random() < 0.5), "lexicase"
        if k == "mutation":
            return GenericMutationStep(rng.choice([0.0, 0.5, 1.0])), "mutation"
        return GenericCrossoverStep(rng.choice([0.0, 0.5, 1.0])), "crossover"
    subs = [random_step(rng, depth + 1, multi) for _ in range(rng.choice([2, 2, 3]))]
    if r < 0.75:
        return SequenceStep(*[s for s, _ in subs]), "seq(" + ",".join(n for _, n in subs) + ")"
    w = [rng.choice([1, 1, 2, 5]) for _ in subs]
    if r < 0.9:
        return ParallelStep([s for s, _ in subs], w), "par(" + ",".join(n for _, n in subs) + ")"
    return ExclusiveParallelStep([s for s, _ in subs], w), "xpar(" + ",".join(n for _, n in subs) + ")"


def run_steps(ctx, case, rec):
    from geneticengine.evaluation.sequential import SequentialEvaluator
    from geneticengine.problems import MultiObjectiveProblem, SingleObjectiveProblem
    from geneticengine.solutions.individual import Individual

    kind = case["repr"]
    model = ctx.model
    src = workload.native(case["seed"])
    rng = pyrandom.Random(case["seed"])
    try:
        rep = workload.make_repr(kind, ctx.grammar, case["decider"], ctx.max_depth, src)
    except BaseException:  # noqa
        rec.count("config_rejected")
        return

    odd = bool(case.get("odd_values"))  # fitness values without an order (NaN) or at the ends of it (inf): legal floats

    def f1(p):
        n = len(model.canon(p))
        if odd and n % 4 == 0:
            return float("nan") if n % 8 == 0 else float("inf")
        return float(n % 7)

    def f3(p):
        t = model.canon(p)
        if odd and len(t) % 4 == 0:
            return [float("inf"), float("inf"), float(t.count(",") % 4)]  # inf - inf = nan in the default aggregate under mixed directions
        return [float(len(t) % 5), float(t.count("(") % 3), float(t.count(",") % 4)]

    if odd:
        rec.count("step_cases_with_nan_or_infinite_fitness")

    buffer = [0.0, 0.0, 0.0]

    def f3_buffer(p):  # fills and returns ONE preallocated list (an allocation-saving habit): what it returned for a program
        buffer[:] = f3(p)  # is what the list held at that moment, not what it holds after the next call
        return buffer

    if case["multi"] and case["seed"] % 3 == 0:
        rec.count("step_cases_whose_fitness_function_reuses_its_result_list")
    prob = MultiObjectiveProblem([rng.random() < 0.5 for _ in range(3)], f3_buffer if case["seed"] % 3 == 0 else f3) if case["multi"] else SingleObjectiveProblem(f1, minimize=rng.random() < 0.5)
    ev = SequentialEvaluator()
    pop = []
    for _ in range(case["pop"] * 3):
        if len(pop) >= case["pop"]:
            break
        try:
            g = rep.create_genotype(src)
            rep.genotype_to_phenotype(g)
            pop.append(Individual(g, rep))
        except BaseException:  # noqa
            rec.count("op_raised")
    if len(pop) < case["pop"]:
        return
    if kind == "tree" and case["seed"] % 2 == 1:
        # programs WRITTEN BY HAND (the documented seeding route: InjectInitialPopulationWrapper, geml's initial_population):
        # built with the classes' own constructors, they carry none of the gengy_* attributes. Whatever a step needs to
        # know about them, it may not write onto them - node metadata "absent" is part of what must stay as it was.
        n_hand = 0
        for k in range(len(pop) - 1, -1, -2):
            h = handwritten(pop[k].genotype)
            if h is not None:
                pop[k] = Individual(h, rep)
                n_hand += 1
        if n_hand:
            rec.count("step_cases_with_hand_written_programs")
            rec.count("hand_written_programs_in_step_input", n_hand)
    for ind in pop[: len(pop) // 2]:
        ev.evaluate(prob, [ind])
    born = {id(i): (i, snap_individual(kind, model, i, rec)) for i in pop}
    wit = {"grammar": case["desc"]["name"], "repr": kind}
    for gen in range(case["gens"]):
        step, name = random_step(rng, 0, case["multi"])
        before = [snap_individual(kind, model, i, rec) for i in pop]
        order = [id(i) for i in pop]
        arg = list(pop)
        try:
            out = list(step.apply(prob, ev, rep, src, arg, len(pop), gen))
            failed = False
        except core.CaseTimeout:
            raise
        except BaseException as e:  # noqa
            out, failed = [], True
            rec.count("step_raised")
            rec.set_add("step_errors", f"{type(e).__name__}@{core.exc_site(e)}")
        rec.count("step_applications")
        rec.count("evaluations")
        rec.set_add("step_kinds", name.split("(")[0])
        # the consumer evaluates what it got (this is where aliasing would bite)
        for o in out:
            if kind == "dsge":
                try:
                    o.get_phenotype()
                except core.CaseTimeout:
                    raise
                except BaseException:  # noqa
                    pass
            if id(o) not in born:
                born[id(o)] = (o, snap_individual(kind, model, o, rec))
        try:
            ev.evaluate(prob, out)
        except BaseException:  # noqa
            rec.count("op_raised")
        if [id(i) for i in arg] != order:
            rec.violation(f"input-population-reordered:{name.split('(')[0]}", dict(wit, step=name))
        for i, s0 in zip(pop, before):
            rec.count("arguments_compared")
            rec.count(f"kind:{kind}")
            dd = diff_individual(s0, snap_individual(kind, model, i))
            if dd:
                part = dd[0]
                if part == "genotype" and kind == "tree":
                    part = "genotype-" + which_part(s0["genotype"], snap_individual(kind, model, i)["genotype"])
                rec.violation(f"input-modified:{kind}:step:{part}", dict(wit, step=name, failed=failed))
        if any(id(o) not in order for o in out):
            rec.distinct_add([kind, name, core.h(repr([b["genotype"] for b in before]))])
        if len(out) >= 2 and not failed:
            pop = out
    for i, s0 in born.values():
        rec.count("end_of_history_compared")
        dd = diff_individual(s0, snap_individual(kind, model, i))
        if dd:
            rec.violation(f"changed-after-production:{kind}:{dd[0]}", dict(wit))
    rec.sample({"grammar": case["desc"]["name"], "repr": kind, "generations": case["gens"], "individuals_tracked": len(born), "multi_objective": case["multi"]})
