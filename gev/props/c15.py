"""C15 - population size is invariant across generations and step compositions."""

from __future__ import annotations

import itertools
import random as pyrandom

from gev import core, evo, workload

PROPERTY = "C15"
LEVEL = "exploration"
EXHAUSTIVE = True
TECHNIQUE = "runtime monitor: counts what every built-in step / initialiser actually yields (len(list(step.apply(...)))) for lists, Population objects and one-shot iterators, over an exhaustive (size, weight-vector) grid for the parallel combinators and random nestings up to depth three; in whole GP runs a recorder counts the individuals of every generation"
RULE = (
    "grid cases = every (size in 2..12 and {25,100,101}, target k <= size, weight vector in {0,0.5,1,2,3,5,90}^{2,3} not all zero, parallel / exclusive-parallel) "
    "over leaf steps; leaf cases = every built-in step x input form; nesting cases = random combinator trees of depth <= 3; init cases = every initialiser "
    "(injected populations of length 0..size+2); gp cases = whole runs; distinct_nontrivial = distinct (step composition, weights, size, target, form) configurations"
)
ASSUMPTIONS = [
    "a step is asked for k individuals with a population of at least k individuals (k <= n); weight vectors are non-negative and not all zero",
    "HalfAndHalfInitializer is driven with bound initialize methods and with initialiser objects",
    "the adaptive / parameterless GP variants (AdaptiveGeneticProgramming, AjustPopulationSizeStep) change the size on purpose and are out of scope; their self-adjusting mutation / crossover steps are ordinary steps and are driven as leaves and inside nestings",
]
PLAN = {
    "quick": {"shards": 8, "shard_timeout": 400, "case_timeout": 30, "grid_sizes": [2, 3, 4, 5, 7, 10, 11], "nest": 300, "gp": 40, "max_case_timeouts": 3},
    "thorough": {"shards": 16, "shard_timeout": 3600, "case_timeout": 120, "grid_sizes": [2, 3, 4, 5, 6, 7, 8, 9, 10, 11, 12, 13, 16, 25, 50, 100, 101], "nest": 400000, "gp": 40000, "max_case_timeouts": 10},
}
THRESHOLDS = {
    "quick": {"step_applications": 20000, "grid_points": 15000, "leaf_applications": 300, "nested_applications": 300, "initialisations": 100, "gp_generations_counted": 100, "form:iterator": 2000, "form:population": 2000, "form:list": 2000, "initialisations_on_the_deep_grammar": 40, "gp_runs_with_explicit_initialiser": 6},
    "thorough": {"step_applications": 300000, "grid_points": 250000, "gp_generations_counted": 4000},
}

WEIGHTS = [0, 0.5, 1, 2, 3, 5, 90]
LEAVES = ["elitism", "novelty", "tournament", "mutation", "crossover", "identity", "evaluate", "adaptive-mutation", "adaptive-crossover", "parameterless-crossover", "lexicase", "epsilon-lexicase"]
# the steps a random nesting draws from: the five plain ones, and (less often) the self-adjusting mutation / crossover steps of
# adaptive.py and parameterless.py - under a combinator they also meet slices of size 0
NEST_LEAVES = LEAVES[:5] * 3 + LEAVES[7:10]
FORMS = ["list", "population", "iterator"]


def make_leaf(name, rng=None):
    from geneticengine.algorithms.gp.operators.combinators import IdentityStep
    from geneticengine.algorithms.gp.operators.crossover import GenericCrossoverStep
    from geneticengine.algorithms.gp.operators.elitism import ElitismStep
    from geneticengine.algorithms.gp.operators.evaluation import EvaluateStep
    from geneticengine.algorithms.gp.operators.mutation import GenericMutationStep
    from geneticengine.algorithms.gp.operators.novelty import NoveltyStep
    from geneticengine.algorithms.gp.operators.selection import TournamentSelection
    from geneticengine.algorithms.gp import adaptive, parameterless

    p = rng.choice([0.0, 0.5, 1.0]) if rng else 1.0
    ts = rng.choice([1, 2, 3, 5, 13]) if rng else 2
    wr = rng.random() < 0.5 if rng else False
    return {
        "elitism": lambda: ElitismStep(),
        "novelty": lambda: NoveltyStep(),
        "tournament": lambda: TournamentSelection(ts, with_replacement=wr),
        "mutation": lambda: GenericMutationStep(p),
        "crossover": lambda: GenericCrossoverStep(p),
        "identity": lambda: IdentityStep(),
        "evaluate": lambda: EvaluateStep(),
        "adaptive-mutation": lambda: adaptive.GenericAdaptiveMutationStep(p),
        "adaptive-crossover": lambda: adaptive.GenericAdaptiveCrossoverStep(p),
        "parameterless-crossover": lambda: parameterless.GenericAdaptiveCrossoverStep(p),
        "lexicase": lambda: __import__("geneticengine.algorithms.gp.operators.selection", fromlist=["x"]).LexicaseSelection(),
        "epsilon-lexicase": lambda: __import__("geneticengine.algorithms.gp.operators.selection", fromlist=["x"]).LexicaseSelection(epsilon=True),
    }[name]()


def build(spec, rng=None):
    """spec: leaf name | ['seq', s1, s2..] | ['par', [w..], s1..] | ['xpar', [w..], s1..]"""
    from geneticengine.algorithms.gp.operators.combinators import ExclusiveParallelStep, ParallelStep, SequenceStep

    if isinstance(spec, str):
        return make_leaf(spec, rng)
    if spec[0] == "seq":
        return SequenceStep(*[build(s, rng) for s in spec[1:]])
    cls = ParallelStep if spec[0] == "par" else ExclusiveParallelStep
    return cls([build(s, rng) for s in spec[2:]], list(spec[1]))


def gen_spec(rng, depth=0):
    if depth >= 3 or rng.random() < 0.35:
        return rng.choice(NEST_LEAVES)
    k = rng.choice(["seq", "par", "par", "xpar"])
    n = rng.choice([2, 2, 3])
    subs = [gen_spec(rng, depth + 1) for _ in range(n)]
    if k == "seq":
        return ["seq"] + subs
    w = [rng.choice(WEIGHTS) for _ in subs]
    if not any(w):
        w[0] = 1
    return [k, w] + subs


def gen_cases(tier, seed):
    plan = PLAN[tier]
    rng = pyrandom.Random(f"c15-{seed}")
    # exhaustive weight grid for the parallel combinators (one case per (kind, arity, size))
    for kind in ("par", "xpar"):
        for arity in (2, 3):
            for n in plan["grid_sizes"]:
                yield {"kind": "grid", "comb": kind, "arity": arity, "n": n, "seed": rng.randrange(10**6)}
    for kind in ("par", "xpar"):  # wider combinators: sampled weight vectors (the full grid is 7^k)
        for arity in (4, 5, 6, 7, 9):
            for n in plan["grid_sizes"]:
                yield {"kind": "grid", "comb": kind, "arity": arity, "n": n, "sampled": 60 if tier == "quick" else 400, "seed": rng.randrange(10**6)}
    for leaf in LEAVES:
        for form in FORMS:
            yield {"kind": "leaf", "leaf": leaf, "form": form, "seed": rng.randrange(10**6)}
    for i in range(plan["nest"]):
        n = rng.choice([2, 3, 4, 5, 6, 7, 9, 10, 12, 25])
        yield {"kind": "nest", "spec": gen_spec(rng), "n": n, "k": rng.choice([n, n, n, max(1, n - 1), max(1, n // 2)]), "form": rng.choice(FORMS), "seed": rng.randrange(10**6)}
    for i in range(plan["gp"]):
        yield {"kind": "gp", "spec": gen_spec(rng, 1) if i % 3 else "default", "n": rng.choice([2, 3, 4, 5, 7, 10, 11, 12, 20]), "gens": rng.randint(2, 6), "repr": rng.choice(["tree", "ge"]), "seed": rng.randrange(10**6)}
    for n in [1, 2, 3, 4, 5, 8, 10, 11]:
        yield {"kind": "init", "n": n, "seed": rng.randrange(10**6)}
        yield {"kind": "init", "n": n, "grammar": "deep", "seed": rng.randrange(10**6)}  # shallowest program three levels deep
    for i in range(max(6, plan["gp"] // 4)):  # whole runs whose FIRST generation comes from each initialiser, on both grammars
        yield {"kind": "gp", "spec": "default" if i % 2 else gen_spec(rng, 1), "n": rng.choice([2, 3, 5, 8, 12]), "gens": rng.randint(2, 4), "repr": "tree", "grammar": rng.choice(["tiny", "deep", "deep"]), "initialiser": rng.choice(["Grow", "PIGrow", "Ramped", "Full", "Standard"]), "seed": rng.randrange(10**6)}


class Env:
    def __init__(self, seed, repr_kind="tree", grammar="tiny", objectives=1):
        from geneticengine.evaluation.sequential import SequentialEvaluator
        from geneticengine.evaluation.tracker import MultiObjectiveProgressTracker, SingleObjectiveProgressTracker
        from geneticengine.problems import MultiObjectiveProblem, SingleObjectiveProblem

        self.g, _ = evo.tiny() if grammar == "tiny" else evo.tiny_deep()
        self.src = workload.native(seed)
        self.rep = evo.make_rep(repr_kind, self.g, self.src, max_depth=4 if grammar == "tiny" else 6)
        self.ev = SequentialEvaluator()
        if objectives > 1:  # (lexicase selection needs a problem with several objectives)
            self.fit = evo.TableFitness(n_objectives=objectives, modulus=5)
            self.prob = MultiObjectiveProblem([k % 2 == 0 for k in range(objectives)], self.fit)
            self.tracker = MultiObjectiveProgressTracker(self.prob, self.ev)
        else:
            self.fit = evo.TableFitness()
            self.prob = SingleObjectiveProblem(self.fit, minimize=False)
            self.tracker = SingleObjectiveProgressTracker(self.prob, self.ev)

    def population(self, n, form, evaluated=True):
        from geneticengine.algorithms.gp.population import Population

        inds = evo.individuals(self.rep, self.src, n)
        if evaluated:
            self.ev.evaluate(self.prob, inds)
        if form == "list":
            return inds, inds
        if form == "population":
            return inds, Population(iter(inds), self.tracker, 0)
        return inds, iter(inds)


def apply_count(env, step, pop_arg, k, rec, wit, mech):
    rec.count("step_applications")
    rec.count("evaluations")
    try:
        out = list(step.apply(env.prob, env.ev, env.rep, env.src, pop_arg, k, 1))
    except core.CaseTimeout:
        raise
    except BaseException as e:  # noqa
        rec.violation(f"{mech}:raises:{type(e).__name__}", dict(wit, error=core.short(e), site=core.exc_site(e)))
        return None
    if len(out) != k:
        rec.violation(f"{mech}:{'short' if len(out) < k else 'over'}", dict(wit, yielded=len(out), target=k))
    return out


def run_case(case, rec):
    kind = case["kind"]
    if kind == "grid":
        return run_grid(case, rec)
    if kind == "leaf":
        return run_leaf(case, rec)
    if kind == "nest":
        return run_nest(case, rec)
    if kind == "gp":
        return run_gp(case, rec)
    return run_init(case, rec)


def run_grid(case, rec):
    env = Env(case["seed"])
    n = case["n"]
    inds, _ = env.population(n, "list")
    if len(inds) < n:
        return
    leaves_cycle = ["novelty", "elitism", "tournament", "mutation", "crossover"]
    ks = sorted({n, max(1, n - 1), max(1, n // 2), 1})
    ci = 0
    if case.get("sampled"):
        rngw = pyrandom.Random(case["seed"])
        vectors = [tuple([1] * case["arity"]), tuple([0.5] * case["arity"]), tuple([90] + [1] * (case["arity"] - 1))]
        vectors += [tuple(rngw.choice(WEIGHTS + [0.55, 0.6, 0.65]) for _ in range(case["arity"])) for _ in range(case["sampled"])]
    else:
        vectors = itertools.product(WEIGHTS, repeat=case["arity"])
    for wv in vectors:
        if not any(wv):
            continue
        for k in ks:
            ci += 1
            subs = [leaves_cycle[(ci + j) % len(leaves_cycle)] for j in range(case["arity"])]
            spec = [case["comb"], list(wv)] + subs
            form = FORMS[ci % 3]
            pop_arg = inds if form == "list" else (iter(inds) if form == "iterator" else _as_population(env, inds))
            rec.count("grid_points")
            rec.count(f"form:{form}")
            rec.distinct_add([spec, n, k, form])
            wit = {"composition": spec, "size": n, "target": k, "form": form}
            apply_count(env, build(spec), pop_arg, k, rec, wit, f"size:{case['comb']}-grid:{form}")
    rec.sample({"grid": case["comb"], "arity": case["arity"], "size": n, "weight_vectors": (len(WEIGHTS) ** case["arity"] - 1) if not case.get("sampled") else f"{case['sampled']} sampled + 3 fixed", "targets": ks}, cap=6)


def _as_population(env, inds):
    from geneticengine.algorithms.gp.population import Population

    return Population(iter(inds), env.tracker, 0)


def run_leaf(case, rec):
    rng = pyrandom.Random(case["seed"])
    for n in (2, 3, 5, 8, 12):
        for k in sorted({n, n - 1, 1, max(1, n // 2)}):
            if case["leaf"] == "evaluate" and k != n:
                continue  # EvaluateStep passes the whole population through by design ("evaluates the complete population")
            for _ in range(2):
                lex = "lexicase" in case["leaf"]
                env = Env(rng.randrange(10**6), objectives=3 if lex else 1)
                inds, pop_arg = env.population(n, case["form"], evaluated=rng.random() < 0.7)
                if len(inds) < n:
                    continue
                if lex and n >= 3 and rng.random() < 0.6:
                    # the same Individual OBJECT at several positions (winners of an earlier selection, elites next to
                    # unchanged survivors): still a population of n members
                    inds = inds[: max(2, n - n // 2)]
                    inds = (inds + inds)[:n]
                    pop_arg = inds if case["form"] == "list" else (iter(inds) if case["form"] == "iterator" else _as_population(env, inds))
                    rec.count("lexicase_applications_on_populations_with_repeated_objects")
                step = make_leaf(case["leaf"], rng)
                rec.count("leaf_applications")
                rec.count(f"form:{case['form']}")
                rec.distinct_add([case["leaf"], n, k, case["form"], getattr(step, "tournament_size", None), getattr(step, "probability", None)])
                wit = {"step": case["leaf"], "size": n, "target": k, "form": case["form"], "tournament_size": getattr(step, "tournament_size", None), "with_replacement": getattr(step, "with_replacement", None)}
                apply_count(env, step, pop_arg, k, rec, wit, f"size:{type(step).__name__}:{case['form']}")
    rec.sample({"leaf": case["leaf"], "form": case["form"]})


def _outer(spec):
    return spec if isinstance(spec, str) else spec[0]


def run_nest(case, rec):
    rng = pyrandom.Random(case["seed"])
    env = Env(case["seed"])
    inds, pop_arg = env.population(case["n"], case["form"])
    if len(inds) < case["n"]:
        return
    rec.count("nested_applications")
    rec.count(f"form:{case['form']}")
    rec.distinct_add([case["spec"], case["n"], case["k"], case["form"]])
    wit = {"composition": case["spec"], "size": case["n"], "target": case["k"], "form": case["form"]}
    apply_count(env, build(case["spec"], rng), pop_arg, case["k"], rec, wit, f"size:nested-{_outer(case['spec'])}:{case['form']}")
    rec.sample(wit, cap=6)


def run_gp(case, rec):
    from geneticengine.algorithms.gp.gp import GeneticProgramming
    from geneticengine.evaluation.budget import EvaluationBudget
    from geneticengine.evaluation.tracker import SingleObjectiveProgressTracker

    rng = pyrandom.Random(case["seed"])
    env = Env(case["seed"], case["repr"], grammar=case.get("grammar", "tiny"))
    R = evo.make_recorder_class()
    r = R()
    tracker = SingleObjectiveProgressTracker(env.prob, env.ev, recorders=[r])
    n = case["n"]
    step = None if case["spec"] == "default" else build(case["spec"], rng)
    kw = {}
    if case.get("initialiser"):
        from geneticengine.algorithms.gp.operators.initializers import StandardInitializer
        from geneticengine.representations.tree.operators import FullInitializer, GrowInitializer, PositionIndependentGrowInitializer, RampedHalfAndHalfInitializer

        d = 3 if case.get("grammar", "tiny") == "tiny" else 5
        kw["population_initializer"] = {"Grow": GrowInitializer(), "PIGrow": PositionIndependentGrowInitializer(d), "Ramped": RampedHalfAndHalfInitializer(d), "Full": FullInitializer(d), "Standard": StandardInitializer()}[case["initialiser"]]
        rec.count("gp_runs_with_explicit_initialiser")
    # a check-counting budget: an evaluation budget is never met by steps that create nothing (C14's finding)
    gp = GeneticProgramming(env.prob, evo.check_count_budget(case["gens"]), env.rep, env.src, tracker=tracker, population_size=n, step=step, **kw)
    wit = {"composition": case["spec"], "population_size": n, "repr": case["repr"], "grammar": case.get("grammar", "tiny"), "initialiser": case.get("initialiser")}
    try:
        gp.search()
    except core.CaseTimeout:
        raise
    except BaseException as e:  # noqa
        rec.violation(f"gp-run:raises:{type(e).__name__}@{core.exc_site(e)}", dict(wit, error=core.short(e)))
    # every generation that was completed must hold exactly n individuals (the last one may be cut by the budget? no:
    # the budget is only checked between generations, so every generation is complete)
    per_gen: dict = {}
    seen = set()
    for ind, _, gen, _ in r.events:
        if id(ind) in seen:
            continue
        seen.add(id(ind))
        per_gen[gen] = per_gen.get(gen, 0) + 1
    counts = _generation_sizes(gp, r)
    for gen, c in sorted(counts.items()):
        rec.count("gp_generations_counted")
        rec.count("evaluations")
        if c != n:
            rec.violation(f"generation-size:{'default-step' if case['spec'] == 'default' else 'custom-step'}:{'short' if c < n else 'over'}", dict(wit, generation=gen, individuals=c))
    rec.distinct_add([case["spec"], n, case["repr"]])
    rec.sample(dict(wit, generation_sizes=counts), cap=6)


def _generation_sizes(gp, recorder):
    """Individuals registered per generation. An individual carried over (elitism) is registered again in the next
    generation with the same object; Population stamps metadata['generation'] before evaluating, so registrations
    are grouped by the generation stamp at registration time."""
    sizes: dict = {}
    for ind, _, gen, _ in recorder.events:
        sizes[gen] = sizes.get(gen, 0) + 1
    return sizes


def run_init(case, rec):
    from geneticengine.algorithms.gp.operators.initializers import HalfAndHalfInitializer, StandardInitializer
    from geneticengine.representations.tree.operators import (
        FullInitializer,
        GrowInitializer,
        InjectInitialPopulationWrapper,
        PositionIndependentGrowInitializer,
        RampedHalfAndHalfInitializer,
    )

    n = case["n"]
    env = Env(case["seed"], grammar=case.get("grammar", "tiny"))
    d = 3 if case.get("grammar", "tiny") == "tiny" else 5
    inits = {
        "Standard": StandardInitializer(),
        "Grow": GrowInitializer(),
        "Full": FullInitializer(d),
        "PIGrow": PositionIndependentGrowInitializer(d),
        "Ramped": RampedHalfAndHalfInitializer(d),
        "HalfAndHalf": HalfAndHalfInitializer(GrowInitializer().initialize, FullInitializer(d).initialize),
        "HalfAndHalf[initialiser objects]": HalfAndHalfInitializer(GrowInitializer(), FullInitializer(d)),  # "combines two initializers"
    }
    if case.get("grammar") == "deep":
        rec.count("initialisations_on_the_deep_grammar", len(inits))
    pool = evo.individuals(env.rep, env.src, n + 2)
    for m in range(0, n + 3):
        progs = [(i.genotype if j % 2 else i) for j, i in enumerate(pool[:m])]
        inits[f"Inject[{m}]"] = InjectInitialPopulationWrapper(progs, StandardInitializer())
    for name, init in inits.items():
        rec.count("initialisations")
        rec.count("evaluations")
        wit = {"initialiser": name, "target": n}
        try:
            out = list(init.initialize(env.prob, env.rep, env.src, n))
        except core.CaseTimeout:
            raise
        except BaseException as e:  # noqa
            rec.violation(f"size:init:{name.split('[')[0]}:raises:{type(e).__name__}", dict(wit, error=core.short(e)))
            continue
        rec.distinct_add([name, n])
        if len(out) != n:
            rec.violation(f"size:init:{name.split('[')[0]}:{'short' if len(out) < n else 'over'}", dict(wit, yielded=len(out)))
    rec.sample({"initialisers": sorted(inits), "target": n}, cap=3)
