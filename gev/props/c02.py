"""C02 - refinements (metahandlers) hold on every value the library produces; validate() accepts
everything generate() can produce."""

from __future__ import annotations

import random as pyrandom

from gev import core, grammars, refmodel, sources, stream, workload

PROPERTY = "C02"
LEVEL = "exploration"
TECHNIQUE = "runtime monitor: independent refinement predicates (dependent ones evaluated on the actual sibling values) on every refined position of every program returned by the real API; generator/validator agreement under exhaustive scripted and boundary-biased random sources"
RULE = (
    "stream cases = (grammar with refined fields, representation, decider, seed, op sequence [+search]); every refined position of every "
    "returned program is checked against the documented predicate; agreement cases = (metahandler with boundary parameters, source) where "
    "every generated value must pass validate() and the predicate; distinct_nontrivial = distinct (metahandler parameters, value) pairs "
    "plus distinct canonical programs with at least one refined position"
)
ASSUMPTIONS = [
    "documented predicates: closed ranges, membership, inclusive length bounds + alphabet, fixed length, IntervalRange length in [min,max] and 0 <= start, end <= top (docstrings)",
    "Dependent is resolved by applying its own dependency function to the actual sibling values",
    "positions of the wrong type are C01's business and are skipped here",
]
PLAN = {
    "quick": {"shards": 8, "shard_timeout": 400, "case_timeout": 20, "grammars": 120, "agree": 400, "max_case_timeouts": 6},
    "thorough": {"shards": 16, "shard_timeout": 3600, "case_timeout": 40, "grammars": 5000, "agree": 30000, "max_case_timeouts": 80},
}
THRESHOLDS = {
    "quick": {"refinements_declared_with_the_subscript_form": 30, "cases_declared_with_string_annotations": 40, "mapped:ge": 200, "mapped:sge": 200, "mapped:dsge": 200, "mapped:stack": 30, "refined_positions": 3000, "dependent_positions": 100, "agree_values": 2000, "repr:stack": 20, "repr:dsge": 50, "repr:ge": 50, "repr:sge": 50, "repr:tree": 100, "set:mh_kinds_seen": 8, "redeclared_grammars": 40},
    "thorough": {"refined_positions": 50000, "dependent_positions": 2000, "agree_values": 50000, "set:mh_kinds_seen": 9},
}

MH_BOUNDARY = [
    ["IntRange", 0, 0], ["IntRange", -3, -3], ["IntRange", -1, 1], ["IntRange", 5, 2005], ["IntRange", 0, 1],
    ["IntList", [7]], ["IntList", [0, 1]], ["IntList", [-2, 4, 9]],
    ["FloatRange", 0, 9], ["FloatRange", 2, 2], ["FloatRange", 1, 5], ["FloatRange", 0.0, 0.0], ["FloatRange", -1.5, 2.0], ["FloatRange", 0.25, 10.25],
    ["FloatList", [0.5]], ["FloatList", [-2.5, 2.5, 7.0]],
    ["VarRange", ["x"]], ["VarRange", ["x", "y", "z"]],
    ["ListSizeBetween", 0, 0], ["ListSizeBetween", 0, 2], ["ListSizeBetween", 2, 2], ["ListSizeBetween", 1, 3],
    ["LSBWLO", 0, 0], ["LSBWLO", 1, 1], ["LSBWLO", 0, 3],
    ["StringSizeBetween", 0, 0, "a"], ["StringSizeBetween", 1, 1, "a"], ["StringSizeBetween", 0, 3, "ab"], ["StringSizeBetween", 2, 4, "xyz"],
    ["WeightedString", [[1.0]], ["a"]], ["WeightedString", [[0.0, 1.0], [0.5, 0.5]], ["a", "c"]], ["WeightedString", [[0.25, 0.25, 0.25, 0.25]] * 3, ["A", "C", "G", "T"]],
    ["WeightedString", [[1.0, 0.0]], ["a", "c"]],
    ["VarRange", ["x0"]], ["VarRange", ["alpha", "beta"]], ["VarRange", ["width"]],  # names of more than one character
    ["IntervalRange", 1, 2, 3], ["IntervalRange", 0, 1, 2], ["IntervalRange", 2, 7, 8], ["IntervalRange", 1, 3, 20],
]
BASE_OF = {"IntRange": "int", "IntList": "int", "FloatRange": "float", "FloatList": "float", "VarRange": "str", "ListSizeBetween": "list", "LSBWLO": "list", "StringSizeBetween": "str", "WeightedString": "str", "IntervalRange": "tuple"}


def gen_cases(tier, seed):
    plan = PLAN[tier]
    for c in stream.gen_cases(tier, seed, plan["grammars"], profiles=("general", "dep")):
        c["kind"] = "stream"
        yield c
    rng = pyrandom.Random(f"c02-{seed}")
    for i in range(plan["agree"]):
        mh = MH_BOUNDARY[i % len(MH_BOUNDARY)]
        if i >= len(MH_BOUNDARY) * 2:  # random parameters around the boundaries
            mh = _random_mh(rng)
        yield {"kind": "agree", "mh": mh, "mode": "scripted" if i % 2 == 0 else "extreme", "seed": rng.randrange(10**6)}
    yield from subscript_cases(rng)


def subscript_cases(rng):
    """The refinements' other documented spelling: `VarRange[["x", "y", "z"]]` (docs/source/metahandlers), `IntRange[9, 10]`
    (the repository's tests), `IntList[a_1, .., a_n]` (its docstring). What is declared this way must be what the call
    form declares."""
    for mh in MH_BOUNDARY:
        forms = ["args"] if mh[0] not in ("IntList", "FloatList", "VarRange") else ["args", "list"]
        for form in forms:
            yield {"kind": "agree", "mh": mh, "mode": "scripted", "form": form, "seed": rng.randrange(10**6)}


def build_subscripted(desc, form):
    from geneticengine.grammar.metahandlers import floats, ints, lists, strings, vars as mvars

    name, *p = desc
    cls = {"IntRange": ints.IntRange, "IntList": ints.IntList, "IntervalRange": ints.IntervalRange, "FloatRange": floats.FloatRange, "FloatList": floats.FloatList, "VarRange": mvars.VarRange, "ListSizeBetween": lists.ListSizeBetween, "LSBWLO": lists.ListSizeBetweenWithoutListOperations, "StringSizeBetween": strings.StringSizeBetween, "WeightedString": strings.WeightedStringHandler}[name]
    if name == "WeightedString":
        import numpy as np

        return cls[np.array(p[0]), list(p[1])]
    if name in ("IntList", "FloatList", "VarRange"):
        if form == "list":
            return cls[list(p[0])]  # X[[a, b, c]]
        return cls.__class_getitem__(tuple(p[0]) if len(p[0]) != 1 else p[0][0])  # X[a, b, c]; X[a] passes the bare element
    return cls.__class_getitem__(tuple(p))


def _random_mh(rng):
    k = rng.choice(["IntRange", "IntervalRange", "ListSizeBetween", "StringSizeBetween", "FloatRange", "IntList", "LSBWLO"])
    if k == "IntRange":
        lo = rng.randint(-5, 5)
        return [k, lo, lo + rng.choice([0, 1, 2, 7, 1000, 1001, 5000])]
    if k == "IntervalRange":
        lo = rng.randint(0, 4)
        hi = lo + rng.randint(1, 4)
        return [k, lo, hi, hi + rng.randint(1, 6)]
    if k in ("ListSizeBetween", "LSBWLO"):
        lo = rng.randint(0, 3)
        return [k, lo, lo + rng.randint(0, 3)]
    if k == "StringSizeBetween":
        lo = rng.randint(0, 3)
        return [k, lo, lo + rng.randint(0, 3), rng.choice(["a", "ab", "abc"])]
    if k == "FloatRange":
        lo = rng.choice([-2.0, 0.0, 0.5])
        return [k, lo, lo + rng.choice([0.0, 1.0, 100.0])]
    return [k, rng.sample(range(-5, 10), rng.randint(1, 4))]


def run_case(case, rec):
    if case["kind"] == "agree":
        return run_agree(case, rec)
    ctx = stream.open_case(case, rec)
    if ctx is None:
        return
    try:
        drive(ctx, rec)
        if case.get("retype"):
            ctx2 = stream.retyped_ctx(ctx)
            if ctx2 is not None:
                rec.count("redeclared_grammars")
                drive(ctx2, rec)
    finally:
        ctx.built.dispose()


def drive(ctx, rec):
    if True:

        def check(v, where):
            n = count_refined(ctx.model, v, ctx.built.start, rec)
            rec.count(f"repr:{ctx.repr}")
            bad = ctx.model.refinement_violations(v, ctx.built.start)
            # second opinion from the parameters the grammar was WRITTEN with (descriptor), independent of the live
            # metahandler objects: catches refinements that were swapped, aliased or went stale after declaration
            rec.count("descriptor_oracle_checks")
            for path, mh, reason in refmodel.desc_refinement_violations(ctx.built, v)[:3]:
                if not any(b[0] == path for b in bad):
                    rec.violation(f"refinement-as-declared:{ctx.repr}:{mh}", {"where": where, "path": path, "reason": reason, "program": core.short(ctx.model.canon(v), 400), "grammar": ctx.case["desc"]["name"], "note": "the live annotation accepts this value; the declared refinement does not"})
            for path, mh, reason in bad[:3]:
                rec.violation(f"refinement:{ctx.repr}:{mh}", {"where": where, "path": path, "reason": reason, "program": core.short(ctx.model.canon(v), 400), "grammar": ctx.case["desc"]["name"]})
            if n and not bad:
                rec.distinct_add(ctx.model.canon(v))
                rec.sample({"grammar": ctx.case["desc"]["name"], "repr": ctx.repr, "where": where, "refined_positions": n, "program": ctx.model.canon(v)[:300]})

        def on_event(ev: workload.Event):
            rec.count("evaluations")
            rec.count(f"op:{ev.op}")
            if ev.op == "map" and ev.exc is None:
                rec.count(f"mapped:{ev.repr_kind}")
            if ev.exc is not None:
                rec.count("op_raised")  # exceptions are judged by C01/C03
                return
            for p in ev.phenotypes:
                check(p, ev.op)

        stream.run_session(ctx, on_event, on_search_program=lambda p: check(p, "fitness-argument"))


def count_refined(model, v, t, rec, siblings=None, depth=0):
    """Counts refined positions actually inspected (coverage evidence)."""
    if depth > 300:
        return 0
    k = refmodel.kind(t)
    n = 0
    if k[0] == "ann":
        n += 1
        rec.count("refined_positions")
        name = type(k[2]).__name__
        rec.set_add("mh_kinds_seen", name)
        if name == "Dependent":
            rec.count("dependent_positions")
            eff = refmodel.effective_mh(k[2], siblings or {})
            if eff is not None:
                rec.set_add("mh_kinds_seen", "Dependent->" + type(eff).__name__)
        n += count_refined(model, v, k[1], rec, None, depth + 1)
    elif k[0] == "list" and isinstance(v, list):
        for x in v:
            n += count_refined(model, x, k[1], rec, None, depth + 1)
    elif k[0] == "tuple" and isinstance(v, tuple) and len(v) == len(k[1]):
        for x, tt in zip(v, k[1]):
            n += count_refined(model, x, tt, rec, None, depth + 1)
    elif k[0] == "union":
        for tt in k[1]:
            if not model.welltyped(v, tt, "$", []):
                n += count_refined(model, v, tt, rec, None, depth + 1)
                break
    elif k[0] == "class":
        c = type(v)
        if c in model.registered and not refmodel.is_abs(c):
            sib = {}
            for fn, tt, x in model.field_values(v, c):
                n += count_refined(model, x, tt, rec, dict(sib), depth + 1)
                sib[fn] = x
    return n


def run_agree(case, rec):
    """validate() must accept everything generate() can produce; generate() stays inside the documented predicate."""
    desc = case["mh"]
    name = desc[0]
    form = case.get("form")
    if form:
        rec.count("refinements_declared_with_the_subscript_form")
        try:
            mh = build_subscripted(desc, form)
        except BaseException as e:  # noqa
            rec.violation(f"subscript-form-raises:{name}:{type(e).__name__}", {"mh": desc, "form": "X[[...]]" if form == "list" else "X[...]", "error": core.short(e)})
            return
    else:
        mh = grammars.build_mh(desc)
    declared = refmodel.shadow_mh(desc)  # the predicate as DECLARED (the library's own object may have understood something else)
    base = {"int": int, "float": float, "str": str, "list": list[int], "tuple": tuple[int, int]}[BASE_OF[name]]
    rec.set_add("mh_kinds_seen", type(mh).__name__)

    def rec_fn(t, **kw):
        return 0

    def gen(src):
        return mh.generate(src, None, base, rec_fn, {})

    def judge(v, how):
        rec.count("agree_values")
        rec.count("evaluations")
        rec.distinct_add([desc, repr(v)])
        try:
            ok = mh.validate(v)
        except BaseException as e:  # noqa
            rec.violation(f"validate-raises:{name}:{type(e).__name__}", {"mh": desc, "value": core.short(v), "error": core.short(e)})
            return
        if not ok:
            rec.violation(f"validate-rejects-generated:{name}", {"mh": desc, "value": core.short(v), "source": how})
        why = refmodel.satisfies(v, None, mh, {})
        if why is not None:
            rec.violation(f"generated-outside-predicate:{name}", {"mh": desc, "value": core.short(v), "reason": why, "source": how})
        why = refmodel.satisfies(v, None, declared, {})
        if why is not None:
            rec.violation(f"generated-outside-the-declared-predicate:{name}:{'subscript-form' if form else 'call-form'}", {"mh": desc, "value": core.short(v), "reason": why, "source": how})
        exp_t = {"int": int, "float": float, "str": str, "list": list, "tuple": tuple}[BASE_OF[name]]
        if not isinstance(v, exp_t) or (exp_t is int and type(v) is bool):
            rec.violation(f"generated-wrong-type:{name}", {"mh": desc, "value": core.short(v)})

    if case["mode"] == "scripted":
        try:
            n = 0
            for res, log in sources.enumerate_runs(gen, max_runs=3000):
                if isinstance(res, BaseException):
                    rec.violation(f"generate-raises:{name}:{type(res).__name__}", {"mh": desc, "error": core.short(res), "draws": [x[0] for x in log]})
                    continue
                judge(res, "scripted:" + ",".join(str(x[0]) for x in log[:12]))
                n += 1
            rec.count("agree_exhaustive_spaces")
            rec.sample({"mh": desc, "mode": "all draws", "values": n})
            return
        except (sources.NotFiniteChoice, sources.TooManyRuns):
            rec.count("agree_not_finite")
    src = sources.ExtremeSource(case["seed"])
    for _ in range(300):
        try:
            v = gen(src)
        except BaseException as e:  # noqa
            rec.violation(f"generate-raises:{name}:{type(e).__name__}", {"mh": desc, "error": core.short(e)})
            break
        judge(v, "extreme")
