"""C10 - the grammar is read-only during synthesis and search."""

from __future__ import annotations

import random as pyrandom
import traceback

from gev import core, grammars, refmodel, stream, workload

PROPERTY = "C10"
LEVEL = "fault_enumeration"
TECHNIQUE = "runtime monitor: mutation-recording list/dict subclasses installed inside a live Grammar (tripwires with the writer's stack) plus full fingerprints of the grammar before/after every API call, under workloads that force internal backtracking and failures (infeasible dependent refinements, fault-injecting metahandlers raising SynthesisException on scripted patterns, infeasible depth limits); and a behavioural echo after each session: the used Grammar object must create, seed for seed, exactly what a freshly extracted grammar over the same classes creates"
RULE = (
    "cases = (grammar whose dependent refinements or fault-injecting metahandler make productions infeasible in some contexts, representation, "
    "decider, seed, op sequence incl. failing ops and short searches); fault pattern = the metahandler raises on every k-th call, k in 1..5; "
    "distinct_nontrivial = distinct (grammar, representation, fault pattern, operation kinds executed) histories that contained at least one backtracking event"
)
ASSUMPTIONS = [
    "tripwires are armed after extract_grammar returns (extraction itself legitimately builds the containers)",
    "fingerprint = alternatives (ordered), distanceToTerminal, recursive_prods, all_nodes, terminals, non_terminals, abstract_dist_to_t, get_weights(), every class's __gengy__",
]
PLAN = {
    "quick": {"shards": 8, "shard_timeout": 400, "case_timeout": 25, "grammars": 160, "max_case_timeouts": 6},
    "thorough": {"shards": 16, "shard_timeout": 3600, "case_timeout": 40, "grammars": 12000, "max_case_timeouts": 160},
}
THRESHOLDS = {
    "quick": {"api_calls_fingerprinted": 5000, "echo_comparisons": 1500, "backtracking_events": 500, "failing_operations": 100, "infeasible_limit_probes": 50, "searches": 30, "repr:tree": 500, "repr:ge": 200, "repr:sge": 200, "repr:dsge": 200, "repr:stack": 50, "grammars_with_unproductive_part": 40},
    "thorough": {"api_calls_fingerprinted": 100000, "backtracking_events": 10000, "failing_operations": 2000},
}

EVENTS: list = []  # tripwire log of the running case
FAULTS = {"raised": 0}


def make_trip_classes():
    def rec_factory(name, base, mutators):
        ns = {}
        for m in mutators:

            def wrapper(self, *a, _m=m, **k):
                if not getattr(self, "_armed", False):
                    return getattr(base, _m)(self, *a, **k)
                plain = list if issubclass(base, list) else (set if issubclass(base, set) else dict)
                before = plain(self)  # small containers: a copy is cheap; a mutator call that changes nothing is not a write
                try:
                    return getattr(base, _m)(self, *a, **k)
                finally:
                    changed = before != plain(self)
                    if changed:
                        stack = [f"{f.filename.split('/geneticengine/')[-1]}:{f.lineno}:{f.name}" for f in traceback.extract_stack()[:-1] if "/geneticengine/" in f.filename or "/geml/" in f.filename][-3:]
                        EVENTS.append({"container": getattr(self, "_label", "?"), "method": _m, "args": core.short(a, 120), "stack": stack})

            ns[m] = wrapper
        return type(name, (base,), ns)

    TL = rec_factory("TripList", list, ["append", "extend", "insert", "remove", "pop", "clear", "sort", "reverse", "__setitem__", "__delitem__", "__iadd__", "__imul__"])
    TD = rec_factory("TripDict", dict, ["__setitem__", "__delitem__", "pop", "popitem", "clear", "update", "setdefault"])
    import collections

    global TripDefaultDict
    TripDefaultDict = rec_factory("TripDefaultDict", collections.defaultdict, ["__setitem__", "__delitem__", "pop", "popitem", "clear", "update", "setdefault", "__missing__"])
    TS = rec_factory("TripSet", set, ["add", "remove", "discard", "pop", "clear", "update", "difference_update", "intersection_update", "symmetric_difference_update", "__ior__", "__iand__", "__isub__", "__ixor__"])
    return TL, TD, TS


TripDefaultDict = None
TripList, TripDict, TripSet = make_trip_classes()


def arm(g, classes):
    """Replaces the grammar's containers by recording subclasses (per instance)."""
    import collections

    # the recording containers keep the TYPE semantics of what they replace (a defaultdict stays a defaultdict):
    # instrumentation must not change the behaviour under observation
    alts = TripDefaultDict(g.alternatives.default_factory) if isinstance(g.alternatives, collections.defaultdict) else TripDict()
    for k, v in g.alternatives.items():
        tl = TripList(v)
        tl._label = f"alternatives[{k.__name__}]"
        tl._armed = True
        dict.__setitem__(alts, k, tl)
    alts._label = "alternatives"
    alts._armed = True
    g.alternatives = alts
    d = TripDefaultDict(g.distanceToTerminal.default_factory, g.distanceToTerminal) if isinstance(g.distanceToTerminal, collections.defaultdict) else TripDict(g.distanceToTerminal)
    d._label, d._armed = "distanceToTerminal", True
    g.distanceToTerminal = d
    for name in ("recursive_prods", "all_nodes", "terminals", "non_terminals"):
        s = TripSet(getattr(g, name))
        s._label, s._armed = name, True
        setattr(g, name, s)
    for c in classes:
        gd = c.__dict__.get("__gengy__")
        if isinstance(gd, dict) and not isinstance(gd, TripDict):
            td = TripDict(gd)
            td._label, td._armed = f"{c.__name__}.__gengy__", True
            type.__setattr__(c, "__gengy__", td)


def fingerprint(g, classes):
    def nm(x):
        return getattr(x, "__name__", str(x))

    return {
        "alternatives": {nm(k): [nm(p) for p in v] for k, v in g.alternatives.items()},
        "distanceToTerminal": sorted((nm(k), v) for k, v in g.distanceToTerminal.items()),
        "recursive_prods": sorted(nm(x) for x in g.recursive_prods),
        "all_nodes": sorted(nm(x) for x in g.all_nodes),
        "terminals": sorted(nm(x) for x in g.terminals),
        "non_terminals": sorted(nm(x) for x in g.non_terminals),
        # a defaultdict grows an "infinite" default entry on a mere read: only finite entries are grammar content
        "abstract_dist_to_t": sorted((nm(k), sorted((nm(a), b) for a, b in v.items() if b < 1000000)) for k, v in g.abstract_dist_to_t.items() if any(b < 1000000 for b in v.values())),
        "weights": sorted((nm(k), v) for k, v in g.get_weights().items()),
        "gengy": sorted((c.__name__, sorted((k, repr(v)) for k, v in c.__dict__.get("__gengy__", {}).items())) for c in classes),
        "start": nm(g.starting_symbol),
    }


def faulty_grammar(k: int, seed: int):
    """A hand-built hierarchy whose metahandler raises SynthesisException on every k-th call (scripted fault)."""
    import sys
    import types
    from abc import ABC
    from dataclasses import dataclass
    from typing import Annotated

    from geneticengine.grammar.metahandlers.base import MetaHandlerGenerator, SynthesisException

    calls = [0]

    class Faulty(MetaHandlerGenerator):
        def validate(self, v):
            return True

        def generate(self, random, grammar, base_type, rec, dependent_values):
            calls[0] += 1
            if calls[0] % k == 0:
                FAULTS["raised"] += 1
                raise SynthesisException("injected fault")
            return random.randint(0, 3)

        def __repr__(self):
            return f"Faulty({k})"

    modname = f"gev_dyn_faulty_{k}_{seed}_{next(grammars._counter)}"
    mod = types.ModuleType(modname)
    sys.modules[modname] = mod

    class Expr(ABC):
        pass

    @dataclass
    class Lit(Expr):
        v: Annotated[int, Faulty()]

    @dataclass
    class Safe(Expr):
        pass

    @dataclass
    class Add(Expr):
        l: Expr  # noqa: E741
        r: Expr

    @dataclass
    class Neg(Expr):
        e: Expr
        tag: Annotated[int, Faulty()]

    classes = [Expr, Lit, Safe, Add, Neg]
    for c in classes:
        c.__module__ = modname
        setattr(mod, c.__name__, c)

    class B:
        pass

    b = B()
    b.module, b.classes, b.start, b.desc = mod, [Lit, Safe, Add, Neg], Expr, {"name": f"faulty{k}", "expansion": False}
    b.dispose = lambda: sys.modules.pop(modname, None)
    return b


def gen_cases(tier, seed):
    rng = pyrandom.Random(f"c10-{seed}")
    n = PLAN[tier]["grammars"]
    descs = grammars.family(seed, n // 2, "dep") + grammars.family(seed + 1, n // 4, "general", with_fixed=False)
    for desc in descs:
        for rk, dk in workload.config_grid(rng):
            yield {"kind": "gf", "desc": desc, "repr": rk, "decider": dk, "extra_depth": rng.choice([0, 1, 2, 3]), "seed": rng.randrange(10**6), "nops": rng.randint(10, 24), "search": rng.choice(["gp", "rs", "hc", "opo", None, None])}
    for desc in grammars.family(seed + 2, n // 4, "weighted", with_fixed=False):  # weight-aware paths, deep enough to matter
        for rk in ("tree", "ge", "stack"):
            yield {"kind": "gf", "desc": desc, "repr": rk, "decider": "progressive" if rk != "stack" else "own", "extra_depth": 4, "seed": rng.randrange(10**6), "nops": rng.randint(10, 24), "search": rng.choice(["gp", "rs", None])}
    for desc in grammars.family(seed + 3, max(6, n // 8), "unproductive-part", with_fixed=False):  # Grammar.get_max_node_depth() is "infinite" here
        for rk, dk in (("tree", "progressive"), ("ge", "progressive"), ("sge", "progressive"), ("tree", "maxdepth"), ("tree", "pigrow"), ("stack", "own"), ("dsge", "own")):
            yield {"kind": "gf", "desc": desc, "repr": rk, "decider": dk, "extra_depth": rng.choice([1, 2, 3]), "seed": rng.randrange(10**6), "nops": rng.randint(8, 16), "search": None, "unproductive_part": True}
    for i in range(n // 4):
        for rk, dk in workload.config_grid(rng):
            yield {"kind": "faulty", "k": 1 + i % 5, "repr": rk, "decider": dk, "extra_depth": rng.choice([0, 1, 2, 4]), "seed": rng.randrange(10**6), "nops": rng.randint(10, 24), "search": rng.choice(["gp", "rs", None])}


def run_case(case, rec):
    from geneticengine.grammar.grammar import extract_grammar

    if case["kind"] == "faulty":
        built = faulty_grammar(case["k"], case["seed"])
        name = f"faulty{case['k']}"
    else:
        built = grammars.materialise(case["desc"])
        name = case["desc"]["name"]
    try:
        try:
            g = extract_grammar(built.classes, built.start)
        except BaseException:  # noqa
            rec.count("extract_failed")
            return
        md = g.get_min_tree_depth()
        if md >= 1000000:
            return
        if case.get("unproductive_part"):
            rec.count("grammars_with_unproductive_part")
        del EVENTS[:]
        infeasible0 = grammars_infeasible_hits()
        faults0 = FAULTS["raised"]
        all_classes = list(built.classes) + [built.start]
        arm(g, all_classes)
        state = {"fp": fingerprint(g, all_classes), "ops": set()}
        wit = {"grammar": name, "repr": case["repr"], "decider": case["decider"]}

        def check(op, failed):
            rec.count("api_calls_fingerprinted")
            rec.count("evaluations")
            rec.count(f"repr:{case['repr']}")
            if failed:
                rec.count("failing_operations")
            state["ops"].add(op + ("!" if failed else ""))
            if EVENTS:
                for e in EVENTS[:3]:
                    site = e["stack"][-1].split(":")[0] + ":" + e["stack"][-1].split(":")[-1] if e["stack"] else "?"
                    rec.violation(f"grammar-written:{e['container'].split('[')[0]}:{e['method']}@{site}", dict(wit, op=op, event=e, op_failed=failed))
                del EVENTS[:]
            fp = fingerprint(g, all_classes)
            if fp != state["fp"]:
                changed = [k for k in fp if fp[k] != state["fp"][k]]
                rec.violation(f"grammar-changed:{changed[0]}", dict(wit, op=op, op_failed=failed, before=core.short(state["fp"][changed[0]], 300), after=core.short(fp[changed[0]], 300)))
                state["fp"] = fp

        # infeasible limits: constructing / mapping must fail without touching the grammar
        if md >= 1:
            src0 = workload.native(case["seed"])
            rec.count("infeasible_limit_probes")
            try:
                rep0 = workload.make_repr(case["repr"], g, case["decider"] if case["decider"] != "own" else "maxdepth", md - 1, src0)
                rep0.genotype_to_phenotype(rep0.create_genotype(src0))
                check("infeasible-limit", False)
            except core.CaseTimeout:
                raise
            except BaseException:  # noqa
                check("infeasible-limit", True)

        src = workload.native(case["seed"])
        try:
            rep = workload.make_repr(case["repr"], g, case["decider"] if case["decider"] != "own" else "maxdepth", md + case["extra_depth"], src)
        except BaseException:  # noqa
            check("construct", True)
            return

        def on_event(ev):
            check(ev.op, ev.exc is not None)

        sess = workload.Session(case["repr"], rep, src, on_event)
        sess.run_ops(workload.gen_ops(pyrandom.Random(case["seed"]), case["nops"]))
        if case.get("search"):

            class C:
                pass

            c = C()
            c.rec, c.repr = rec, case["repr"]
            sev = stream.run_search(c, rep, case["search"], case["seed"], lambda p: None, budget=30, pop=6)
            rec.count("searches")
            check(f"search-{case['search']}", sev is not None)
        if case["kind"] != "faulty":  # (the fault-injecting metahandler follows a global script: two grammars would see two scripts)
            echo(g, built, case, rec, wit, md)
            check("echo", False)
        back = (grammars_infeasible_hits() - infeasible0) + (FAULTS["raised"] - faults0)
        rec.count("backtracking_events", back)
        if back:
            rec.distinct_add([name, case["repr"], case.get("k"), sorted(state["ops"])])
            rec.sample({"grammar": name, "repr": case["repr"], "decider": case["decider"], "backtracking_events": back, "ops": sorted(state["ops"]), "api_calls": sess.n})
    finally:
        built.dispose()


def echo(g_used, built, case, rec, wit, md):
    """'The set of programs creatable from a grammar neither shrinks nor grows over the lifetime of a process': after
    the session the USED grammar object must behave exactly like a freshly extracted one - same seed, same creations -
    whatever the library keeps on it besides the documented tables."""
    from geneticengine.grammar.grammar import extract_grammar

    try:
        g_new = extract_grammar(built.classes, built.start)
    except BaseException:  # noqa
        return
    model = refmodel.Model(built.classes, built.start)
    for rk, dk in (("tree", "maxdepth"), ("tree", "pigrow"), ("ge", "maxdepth"), ("dsge", "own")):
        for extra in (0, 2):
            seqs = []
            for gg in (g_used, g_new):
                src = workload.native(4242 + extra)
                out = []
                try:
                    rep = workload.make_repr(rk, gg, dk, md + extra, src, gene_length=64)
                    for _ in range(10):
                        try:
                            out.append(model.canon(rep.genotype_to_phenotype(rep.create_genotype(src))))
                        except core.CaseTimeout:
                            raise
                        except BaseException as e:  # noqa
                            out.append("!" + type(e).__name__)
                except core.CaseTimeout:
                    raise
                except BaseException as e:  # noqa
                    out.append("!!" + type(e).__name__)
                seqs.append(out)
            rec.count("echo_comparisons")
            if seqs[0] != seqs[1]:
                k = next((i for i, (a, b) in enumerate(zip(seqs[0], seqs[1])) if a != b), 0)
                rec.violation(f"used-grammar-creates-differently-from-a-fresh-extraction:{rk}", dict(wit, echo_decider=dk, limit=md + extra, creation=k, used=core.short(seqs[0][k], 200), fresh=core.short(seqs[1][k], 200)))


def grammars_infeasible_hits():
    return grammars.INFEASIBLE["hits"]
