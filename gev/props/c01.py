"""C01 - every program the library produces is well-typed for its grammar."""

from __future__ import annotations

from gev import core, stream, workload

PROPERTY = "C01"
LEVEL = "exploration"
TECHNIQUE = "runtime monitor: reference type-checker on every value returned by the real create/map/mutate/crossover API and on every fitness-function argument, over generated grammars x 5 representations x operation sequences; the same checker on every program kept by geml estimators fitted on everyday data sets"
RULE = (
    "cases = (generated grammar descriptor, representation, decider, depth, seed, random op sequence of create/map/mutate/crossover "
    "[+ short GP/RS/HC/1+1 search]); every returned program and every fitness argument is checked by the reference type checker; "
    "distinct_nontrivial = distinct canonical texts of checked programs that contain at least one field"
)
ASSUMPTIONS = [
    "grammars are drawn from the generated family (single inheritance, dataclass and typed-__init__ productions) plus fixed members",
    "an exception is acceptable only if its class is defined in a geneticengine.* module",
    "typing.Union (not PEP 604 unions) is the union form the library documents",
]
PLAN = {
    "quick": {"shards": 8, "shard_timeout": 400, "case_timeout": 20, "grammars": 150, "max_case_timeouts": 6},
    "thorough": {"shards": 16, "shard_timeout": 3600, "case_timeout": 30, "grammars": 4000, "max_case_timeouts": 80},
}
THRESHOLDS = {
    "quick": {"cases_declared_with_string_annotations": 60, "mapped:ge": 200, "mapped:sge": 200, "mapped:dsge": 200, "mapped:stack": 30, "programs_checked": 2000, "kind:tuple": 50, "kind:union": 30, "kind:bool": 50, "kind:list": 100, "kind:abstract": 500, "repr:tree": 200, "repr:ge": 100, "repr:sge": 100, "repr:dsge": 100, "repr:stack": 20, "op:mutate": 100, "op:crossover": 100, "fitness_args_checked": 100, "redeclared_grammars": 40, "geml_fits": 9, "geml_programs_checked": 9},
    "thorough": {"programs_checked": 40000, "kind:tuple": 1000, "kind:union": 600, "kind:bool": 1000, "repr:stack": 300, "fitness_args_checked": 2000},
}


def gen_cases(tier, seed):
    yield from stream.gen_cases(tier, seed, PLAN[tier]["grammars"], profiles=("general", "dep"), expansion_share=0.1)
    # grammars with a part that cannot be completed (an abstract class none of whose productions is supplied): the rest of
    # the language is still usable, and no program may contain an instance of such a class
    for case in stream.gen_cases(tier, seed + 41, max(10, PLAN[tier]["grammars"] // 5), profiles=("unproductive-part",), expansion_share=0.0):
        case["unproductive_part"] = True
        yield case
    # the geml front-end builds its grammar from the DATA (feature names, class labels): ordinary data sets
    for est in ("classifier", "regressor"):
        for x in ("ndarray", "dataframe-named", "dataframe-unnamed"):
            for labels in (("int", "bool") if est == "classifier" else ("float",)):  # (the classifiers score with r2: numeric labels)
                yield {"kind": "geml", "estimator": est, "x": x, "labels": labels, "seed": seed}


def _kinds(model, t, rec, seen):
    from gev import refmodel

    k = refmodel.kind(t)
    if k[0] == "base":
        rec.count(f"kind:{k[1].__name__}")
    elif k[0] == "ann":
        rec.count("kind:annotated")
        _kinds(model, k[1], rec, seen)
    elif k[0] == "list":
        rec.count("kind:list")
        _kinds(model, k[1], rec, seen)
    elif k[0] in ("tuple", "union"):
        rec.count(f"kind:{k[0]}")
        for x in k[1]:
            _kinds(model, x, rec, seen)
    elif k[0] == "class":
        rec.count("kind:abstract" if refmodel.is_abs(k[1]) else "kind:concrete")


def count_field_kinds(model, v, rec, depth=0):
    """Counts the declared kinds of the fields actually inspected in a produced program."""
    from gev import refmodel

    if depth > 200:
        return
    if isinstance(v, (list, tuple)):
        for x in v:
            count_field_kinds(model, x, rec, depth + 1)
        return
    c = type(v)
    if c in model.registered and not refmodel.is_abs(c):
        for n, t, x in model.field_values(v, c):
            _kinds(model, t, rec, None)
            count_field_kinds(model, x, rec, depth + 1)


def check_program(ctx, v, where, rec):
    model = ctx.model
    rec.count("programs_checked")
    rec.count(f"repr:{ctx.repr}")
    bad = model.welltyped(v, ctx.built.start)
    if bad:
        path, declared, reason = bad[0]
        import re

        obs = re.sub(r"[^A-Za-z_ ]", "", reason.split(":")[0])[:60].strip().replace(" ", "_")
        rec.violation(
            f"illtyped:{ctx.repr}:{declared}:{obs}",
            {"where": where, "path": path, "reason": reason, "program": core.short(v, 400), "grammar": ctx.case["desc"]["name"]},
        )
        return False
    count_field_kinds(model, v, rec)
    text = model.canon(v)
    if "=" in text:
        rec.distinct_add(text)
    rec.sample({"grammar": ctx.case["desc"]["name"], "repr": ctx.repr, "where": where, "program": text[:300]})
    return True


def judge_exception(ctx, ev, rec):
    e = ev.exc
    if core.is_library_error(e):
        rec.count(f"library_error:{type(e).__name__}")
        return
    if isinstance(e, RecursionError):
        # the frame where the interpreter's limit is hit is arbitrary: key by whether the decider bounds the depth at all
        rec.violation(f"exc:{ctx.repr}:RecursionError:{'unbounded-decider' if ctx.limit is None else 'depth-limited-decider'}", {"error": core.short(e), "op": ev.op, "grammar": ctx.case["desc"]["name"], "decider": ctx.decider, "max_depth": ctx.max_depth})
        return
    rec.violation(
        f"exc:{ctx.repr}:{ev.op}:{type(e).__name__}@{core.exc_site(e)}",
        {"error": core.short(e), "op": ev.op, "grammar": ctx.case["desc"]["name"], "decider": ctx.decider, "max_depth": ctx.max_depth},
    )


def run_geml(case, rec):
    """fit() of a geml estimator on an everyday data set; every program it kept (best, recorded bests) is checked against
    the grammar the estimator itself extracted (reference model over its classes)."""
    import numpy as np
    import pandas as pd
    from gev import refmodel

    rng = np.random.default_rng(case["seed"])
    data = rng.normal(size=(30, 2))
    if case["x"] == "dataframe-named":
        X = pd.DataFrame(data, columns=["width", "height"])
    elif case["x"] == "dataframe-unnamed":
        X = pd.DataFrame(data)  # columns 0, 1
    else:
        X = data
    if case["estimator"] == "classifier":
        from geml.classifiers import RandomSearchClassifier as Est

        y = (data[:, 0] > 0).astype(int)
        if case["labels"] == "bool":
            y = y.astype(bool)
    else:
        from geml.regressors import RandomSearchRegressor as Est

        y = data[:, 0] * 2 + data[:, 1]
    wit = {"estimator": case["estimator"], "X": case["x"], "labels": case["labels"]}
    rec.count("geml_fits")
    est = Est(max_time=1, seed=case["seed"], remove_time_overheads=False)
    try:
        est.fit(X, y)
    except core.CaseTimeout:
        raise
    except BaseException as e:  # noqa
        if core.is_library_error(e):
            rec.count("geml_fit_rejected_by_the_library")
            return
        rec.violation(f"exc:geml:{case['estimator']}:fit:{type(e).__name__}@{core.exc_site(e)}", dict(wit, error=core.short(e)))
        return
    g = est.grammar
    model = refmodel.Model(list(g.considered_subtypes), g.starting_symbol)
    progs = [est.best_individual.get_phenotype()] + [i.get_phenotype() for i in list(getattr(est, "best_individuals", []))[:30]]
    for p in progs:
        rec.count("programs_checked")
        rec.count("geml_programs_checked")
        rec.count("evaluations")
        bad = model.welltyped(p, g.starting_symbol)
        if bad:
            path, declared, reason = bad[0]
            rec.violation(f"illtyped:geml:{case['estimator']}:{declared}:{str(reason).replace(' ', '_')}", dict(wit, path=path, program=core.short(p, 200)))
            break
    rec.distinct_add(["geml", case["estimator"], case["x"], case["labels"]])
    rec.sample(dict(wit, programs=len(progs), best=core.short(progs[0], 120)))


def run_case(case, rec):
    if case.get("kind") == "geml":
        return run_geml(case, rec)
    ctx = stream.open_case(case, rec)
    if ctx is None:
        return
    try:
        drive(ctx, rec)
        if case.get("retype"):
            ctx2 = stream.retyped_ctx(ctx)
            if ctx2 is not None:
                rec.count("redeclared_grammars")
                drive(ctx2, rec)
    finally:
        ctx.built.dispose()


def drive(ctx, rec):
    if True:

        def on_event(ev: workload.Event):
            rec.count("evaluations")
            rec.count(f"op:{ev.op}")
            if ev.op == "map" and ev.exc is None:
                rec.count(f"mapped:{ev.repr_kind}")
            if ev.exc is not None:
                judge_exception(ctx, ev, rec)
                return
            for p in ev.phenotypes:
                safe_check(p, ev.op)

        def safe_check(p, where):
            # unbounded deciders build programs thousands of levels deep; the reference folds are recursive: such a program
            # is counted as not judged (the monitor's limit, not a verdict on the program)
            try:
                with core.oracle_room(30000):
                    check_program(ctx, p, where, rec)
            except RecursionError:
                rec.count("too_deep_for_reference")

        def on_search_program(p):
            rec.count("fitness_args_checked")
            safe_check(p, "fitness-argument")

        stream.run_session(ctx, on_event, on_search_program=on_search_program)


