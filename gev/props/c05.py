"""C05 - grammar analysis is exact: productions, minimum depths, recursion, reachability."""

from __future__ import annotations

import random as pyrandom

from gev import core, corpus, grammars, refmodel

PROPERTY = "C05"
LEVEL = "exploration"
TECHNIQUE = "runtime monitor: post-condition on every Grammar returned by the real extract_grammar / usable_grammar, comparing alternatives, distanceToTerminal, recursive_prods and reachability with an independent least-fixpoint analysis of the class hierarchy, over generated hierarchies (both depthing modes) and the shipped grammars"
RULE = (
    "cases = generated class hierarchies (1-3 abstract types incl. nested layers, unreachable classes, base/list/tuple/union/annotated "
    "fields, self and mutual recursion, both depthing modes) and the geml.grammars corpus; each extracted grammar and its usable_grammar() "
    "is compared symbol by symbol with the reference analysis; distinct_nontrivial = distinct (symbol field-shape, reference depth, recursive?) signatures compared"
)
ASSUMPTIONS = [
    "minimum depth of a field whose list may be empty is accepted under either reading (empty list counts / does not count as the shallowest value)",
    "expansion depthing: +1 per abstract expansion, per list/tuple/union wrapper and per base value (docs/source/grammars.md, mirrored from PonyGE2)",
    "productions = direct subclasses among the supplied classes that are registered (reachable through subclassing or fields from the start symbol)",
    "single inheritance hierarchies",
]
PLAN = {
    "quick": {"shards": 8, "shard_timeout": 300, "case_timeout": 20, "grammars": 4000, "max_case_timeouts": 4},
    "thorough": {"shards": 16, "shard_timeout": 3600, "case_timeout": 30, "grammars": 300000, "max_case_timeouts": 30},
}
THRESHOLDS = {
    "quick": {"symbols_compared": 8000, "grammars_compared": 1200, "usable_compared": 1000, "corpus_grammars": 5, "recursive_symbols_seen": 500, "unreachable_symbols_seen": 200, "kind:union": 100, "kind:tuple": 100, "kind:bool": 100, "expansion_grammars": 100, "sibling_grammars_compared": 3000, "sibling:reordered": 2000, "sibling:entered-below-the-root": 300, "redeclared_grammars_compared": 800},
    "thorough": {"symbols_compared": 300000, "grammars_compared": 50000, "usable_compared": 40000, "corpus_grammars": 5},
}


def gen_cases(tier, seed):
    n = PLAN[tier]["grammars"]
    for i in range(n):
        yield {"kind": "gf", "i": i, "seed": seed}
    yield {"kind": "corpus"}


def _kinds_of(t, rec):
    k = refmodel.kind(t)
    if k[0] == "base":
        rec.count(f"kind:{k[1].__name__}")
    elif k[0] == "ann":
        rec.count("kind:annotated")
        _kinds_of(k[1], rec)
    elif k[0] == "list":
        rec.count("kind:list")
        _kinds_of(k[1], rec)
    elif k[0] in ("tuple", "union"):
        rec.count(f"kind:{k[0]}")
        for x in k[1]:
            _kinds_of(x, rec)


def shape(model, c):
    if refmodel.is_abs(c):
        return "abs/" + str(len(model.productions(c)))
    return "conc/" + ",".join(_tshape(t) for _, t in model.fields(c))


def _tshape(t):
    k = refmodel.kind(t)
    if k[0] == "base":
        return k[1].__name__
    if k[0] == "ann":
        return f"ann<{_tshape(k[1])}:{type(k[2]).__name__}>"
    if k[0] == "list":
        return f"list<{_tshape(k[1])}>"
    if k[0] in ("tuple", "union"):
        return f"{k[0]}<{','.join(_tshape(x) for x in k[1])}>"
    if k[0] == "class":
        return "abs" if refmodel.is_abs(k[1]) else "conc"
    return "?"


def compare(label, classes, start, expansion, g, rec, which="extract", closed=False):
    """Compares one Grammar with the reference analysis."""
    model = refmodel.Model(classes, start, expansion=expansion, closed=closed)
    lo, _ = model.mindepth_table(lists_may_be_empty=True)
    hi, _ = model.mindepth_table(lists_may_be_empty=False)
    rec.count("grammars_compared")
    rec.count("evaluations")
    if expansion:
        rec.count("expansion_grammars")
    wit = {"grammar": label, "which": which, "expansion": expansion}
    # registered symbols
    lib_nodes = {c for c in g.all_nodes if isinstance(c, type) and c.__module__ != "builtins"}
    ref_nodes = set(model.registered)
    if lib_nodes != ref_nodes:
        extra = sorted(c.__name__ for c in lib_nodes - ref_nodes)
        missing = sorted(c.__name__ for c in ref_nodes - lib_nodes)
        rec.violation(f"registered-symbols:{which}:{'extra' if extra else 'missing'}", dict(wit, extra=extra, missing=missing))
    # productions
    for a in model.registered:
        if not refmodel.is_abs(a):
            if a in g.alternatives:
                rec.violation(f"alternatives:{which}:concrete-has-productions", dict(wit, symbol=a.__name__))
            continue
        ref = sorted(c.__name__ for c in model.productions(a))
        lib = sorted(c.__name__ for c in g.alternatives.get(a, []))
        rec.count("rules_compared")
        if ref != lib:
            kind = "duplicate" if len(set(lib)) != len(lib) else ("indirect-or-foreign" if set(lib) - set(ref) else "missing")
            rec.violation(f"alternatives:{which}:{kind}", dict(wit, symbol=a.__name__, library=lib, reference=ref))
    # minimum depths
    for s in model.registered:
        rec.count("symbols_compared")
        for _, t in model.fields(s) if not refmodel.is_abs(s) else []:
            _kinds_of(t, rec)
        v = g.distanceToTerminal.get(s)
        if v is None:
            rec.violation(f"mindepth:{which}:symbol-missing", dict(wit, symbol=s.__name__))
            continue
        ok = {lo[s], hi[s]}
        rec.distinct_add([shape(model, s), hi[s], s in model.recursive(), expansion])
        if v not in ok and not (v >= 1000000 and hi[s] >= refmodel.INF):
            direction = "over" if v > max(ok) else "under"
            rec.violation(f"mindepth:{which}:{direction}", dict(kinds=_why(model, s), **dict(wit, symbol=s.__name__, library=v, reference=sorted(ok), fields=[(n, _tshape(t)) for n, t in model.fields(s)] if not refmodel.is_abs(s) else "abstract")))
    # base types the library tracks
    for b in (int, float, str, bool):
        if b in g.all_nodes:
            v = g.distanceToTerminal.get(b)
            exp = 1 if expansion else 0
            rec.count("base_symbols_compared")
            if v != exp:
                rec.violation(f"mindepth:{which}:base:{b.__name__}", dict(wit, library=v, reference=exp))
    # recursion
    ref_rec = {c.__name__ for c in model.recursive()}
    lib_rec = {c.__name__ for c in g.recursive_prods if isinstance(c, type) and c in ref_nodes}
    rec.count("recursive_symbols_seen", len(ref_rec))
    ref_rec_strict = {c.__name__ for c in model.recursive(lists_may_be_empty=False)}
    if ref_rec_strict != ref_rec and ref_rec_strict <= lib_rec <= ref_rec:
        # a cycle that only exists if a production whose list of an uncompletable type stays EMPTY counts as a program:
        # the documented ambiguity of possibly-empty lists; either reading is accepted
        rec.count("recursion_decided_under_the_other_reading_of_empty_lists")
        lib_rec = ref_rec
    if ref_rec != lib_rec:
        rec.violation(f"recursive:{which}:{'extra' if lib_rec - ref_rec else 'missing'}", dict(wit, library=sorted(lib_rec), reference=sorted(ref_rec)))
    # the start symbol's minimum drives every decider
    return model, lo, hi


def _why(model, s):
    """Names the field kinds of the offending symbol (mechanism key, never names or seeds)."""
    if refmodel.is_abs(s):
        return "abstract"
    kinds = set()
    for _, t in model.fields(s):
        k = refmodel.kind(t)
        kk = k[0]
        if kk == "ann":
            kk = "ann-" + refmodel.kind(k[1])[0]
        if kk == "base":
            kk = k[1].__name__
        kinds.add(kk)
    return "+".join(sorted(kinds)) or "fieldless"


def check_usable(label, classes, start, expansion, g, rec):
    model = refmodel.Model(classes, start, expansion=expansion)
    wit = {"grammar": label, "expansion": expansion}
    try:
        ug = g.usable_grammar()
    except core.CaseTimeout:
        raise
    except BaseException as e:  # noqa
        rec.violation(f"usable_grammar:raises:{type(e).__name__}@{core.exc_site(e)}", dict(wit, error=core.short(e)))
        return
    rec.count("usable_compared")
    reach = set(model.reachable())
    rec.count("unreachable_symbols_seen", len(set(model.registered) - reach))
    lib = {c for c in ug.all_nodes if isinstance(c, type) and c.__module__ != "builtins"}
    # "contains exactly the symbols reachable from the start symbol": the abstract supertypes of the starting symbol, or of
    # a concrete class used as a field type, are NOT reachable (they used to be tolerated here as 'adding no program'; they
    # are symbols and rules of the sub-grammar all the same, with an analysis of their own)
    if lib != reach:
        rec.violation(
            f"usable_grammar:{'extra' if lib - reach else 'missing'}-symbols",
            dict(wit, extra=sorted(c.__name__ for c in lib - reach), missing=sorted(c.__name__ for c in reach - lib)),
        )
        return
    # same programs: every reachable rule keeps exactly its reachable productions, and the analysis of the
    # sub-grammar agrees with the reference analysis of the reachable classes
    for a in reach:
        if refmodel.is_abs(a):
            ref = sorted(c.__name__ for c in model.productions(a))
            got = sorted(c.__name__ for c in ug.alternatives.get(a, []))
            if ref != got:
                rec.violation("usable_grammar:productions-differ", dict(wit, symbol=a.__name__, usable=got, reference=ref))
    if bool(ug.expansion_depthing) != bool(g.expansion_depthing):
        rec.violation("usable_grammar:depthing-mode-dropped", dict(wit, original=bool(g.expansion_depthing), usable=bool(ug.expansion_depthing)))
    compare(label, sorted(reach, key=lambda c: c.__name__), start, bool(ug.expansion_depthing), ug, rec, which="usable", closed=True)


def run_case(case, rec):
    if case["kind"] == "corpus":
        for label, classes, start in corpus.corpus():
            from geneticengine.grammar.grammar import extract_grammar

            for exp in (False, True):
                try:
                    g = extract_grammar(classes, start, expansion_depthing=exp)
                except core.CaseTimeout:
                    raise
                except BaseException as e:  # noqa
                    if core.is_library_error(e) or type(e).__name__ == "InvalidGrammarException":
                        rec.count("corpus_rejected")
                        continue
                    rec.violation(f"extract:raises:{type(e).__name__}@{core.exc_site(e)}", {"grammar": label, "error": core.short(e)})
                    continue
                rec.count("corpus_grammars")
                compare(label, classes, start, exp, g, rec)
                check_usable(label, classes, start, exp, g, rec)
                rec.sample({"grammar": label, "expansion": exp, "symbols": len(g.all_nodes), "min_depth": g.get_min_tree_depth()})
        return
    rng = pyrandom.Random(f"c05-{case['seed']}-{case['i']}")
    desc = grammars.gen_descriptor(case["seed"] * 1000003 + case["i"], rng.choice(["general", "general", "finite", "dep", "weighted", "unproductive-part"]))
    if case["i"] < len(grammars.FIXED):
        desc = dict(grammars.FIXED[case["i"]])
    desc["expansion"] = rng.random() < 0.3
    built = grammars.materialise(desc)
    try:
        try:
            g = grammars.extract(built)
        except core.CaseTimeout:
            raise
        except BaseException as e:  # noqa
            rec.violation(f"extract:raises:{type(e).__name__}@{core.exc_site(e)}", {"grammar": desc["name"], "error": core.short(e), "desc": desc})
            return
        model, lo, hi = compare(desc["name"], built.classes, built.start, desc["expansion"], g, rec)
        check_usable(desc["name"], built.classes, built.start, desc["expansion"], g, rec)
        # a second grammar over the SAME class objects (sub-language without the field-less productions, other depthing
        # mode): the analysis must be a function of the grammar, not of anything remembered on the classes
        drop = set()
        for a in desc["abstracts"]:
            prods = [p for p in desc["prods"] if p.get("parent") == a["name"]]
            leaf = [p for p in prods if not p["fields"]]
            if len(prods) >= 2 and leaf:
                drop.add(leaf[0]["name"])
        sub = [c for c in built.classes if c.__name__ not in drop]
        from geneticengine.grammar.grammar import extract_grammar

        variants = [(sub, built.start, desc["expansion"], "sub-language"), (built.classes, built.start, not desc["expansion"], "other-depthing"), (built.classes, built.start, desc["expansion"], "again")]
        # the same classes listed in another order, and the hierarchy entered at a nested abstract class: registration
        # order is an input like any other
        shuffled = list(built.classes)
        rng.shuffle(shuffled)
        variants.append((shuffled, built.start, desc["expansion"], "reordered"))
        nested = [built.ns[a["name"]] for a in desc["abstracts"] if a.get("parent") and any(p.get("parent") == a["name"] for p in desc["prods"])]
        if nested and not str(desc["name"]).startswith(("weighted", "dep")):
            variants.append((list(reversed(shuffled)), rng.choice(nested), desc["expansion"], "entered-below-the-root"))
        for classes, start2, exp, tag in variants:
            if start2 not in classes and not refmodel.is_abs(start2):
                continue
            try:
                g2 = extract_grammar(classes, start2, expansion_depthing=exp)
            except core.CaseTimeout:
                raise
            except BaseException as e:  # noqa
                rec.violation(f"extract:raises:{type(e).__name__}@{core.exc_site(e)}", {"grammar": desc["name"], "sibling": tag, "error": core.short(e)})
                continue
            rec.count("sibling_grammars_compared")
            if tag in ("reordered", "entered-below-the-root"):
                rec.count(f"sibling:{tag}")
            compare(f"{desc['name']}#{tag}", classes, start2, exp, g2, rec, which="sibling")
        # the documented idiom Prod.__init__.__annotations__[field] = NewType, then a new extraction over the same classes
        d2 = grammars.retyped(desc, rng)
        if d2 is not None:
            b2 = grammars.apply_retype(built, d2)
            try:
                g3 = grammars.extract(b2)
                rec.count("redeclared_grammars_compared")
                compare(d2["name"], b2.classes, b2.start, bool(d2.get("expansion")), g3, rec, which="redeclared")
            except core.CaseTimeout:
                raise
            except BaseException as e:  # noqa
                rec.violation(f"extract:raises:{type(e).__name__}@{core.exc_site(e)}", {"grammar": d2["name"], "error": core.short(e)})
        if case["i"] % 50 == 0:
            rec.sample({"grammar": desc["name"], "expansion": desc["expansion"], "start": built.start.__name__, "min_depth_library": g.get_min_tree_depth(), "min_depth_reference": sorted({lo[built.start], hi[built.start]}), "recursive": sorted(c.__name__ for c in model.recursive())})
    finally:
        built.dispose()
