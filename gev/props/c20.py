"""C20 - the CSV search log is faithful and is a valid prefix at every interruption point."""

from __future__ import annotations

import csv
import io
import os
import random as pyrandom
import re
import shutil
import signal
import subprocess
import tempfile
import time

from gev import core, evo, workload

PROPERTY = "C20"
LEVEL = "fault_enumeration"
TECHNIQUE = "runtime monitor + crash-point injection: (a) the bytes on disk are re-read after every register() of the real CSVSearchRecorder and compared with a row model; (b) strace records the write(2) history of the recorder's descriptor in a child run and an offline checker requires whole rows per write and k rows before the k-th registration returns; (c) children are killed at enumerated line events inside the recorder/tracker (sys.monitoring failpoint -> os._exit) and by external SIGKILL, and the file left behind must be a complete-row prefix of the uninterrupted run"
RULE = (
    "in-process cases = (1-4 objectives, default / explicit / extra fields, both recording modes, single or multi tracker, scripted fitness history, direct recorder or through SimpleGP); "
    "strace cases = child searches (random search / GP); crash cases = (child configuration, failpoint index n = 1..N or SIGKILL delay); "
    "distinct_nontrivial = distinct (configuration, on-disk state) observations with at least one data row, plus distinct kill points"
)
ASSUMPTIONS = [
    "the time column is ignored; fitness cells are compared as floats, other cells as text",
    "a registration counts as completed when register() has returned; lag (fewer complete rows on disk than completed registrations) is a violation, as is any partial row",
    "crash points are syscall-granular: a single write(2) torn inside the kernel cannot be produced here",
    "a kill before the constructor returned may leave an empty file",
]
PLAN = {
    "quick": {"shards": 8, "shard_timeout": 500, "case_timeout": 90, "inproc": 400, "strace": 8, "failpoints": 48, "sigkill": 10, "max_case_timeouts": 2},
    "thorough": {"shards": 16, "shard_timeout": 3600, "case_timeout": 120, "inproc": 100000, "strace": 200, "failpoints": 5000, "sigkill": 500, "max_case_timeouts": 8},
}
THRESHOLDS = {
    "quick": {"re_registrations": 300, "only_best_runs_with_several_objectives": 15, "configuration_dicts_changed_after_construction": 80, "recorders_on_lazily_sized_problems": 20, "disk_reads_after_register": 3000, "rows_compared": 3000, "multi_objective_rows": 800, "extra_field_cells": 1500, "simplegp_runs": 10, "strace_runs": 6, "strace_writes": 100, "crash_files_checked": 40, "set:kill_points": 15, "only_best_runs": 60, "set:special_cells_seen": 12, "simplegp_ambiguous_runs": 10, "rows_of_lookalike_programs": 20, "field_configuration:empty+extra": 15, "field_configuration:explicit+extra": 15, "field_configuration:default+noextra": 15, "field_configuration:default+override": 10, "field_configuration:explicit+override": 10, "recorders_sharing_a_fields_dict": 15},
    "thorough": {"disk_reads_after_register": 80000, "crash_files_checked": 650, "set:kill_points": 60, "strace_runs": 35},
}


NASTY = ["a\rb", "\r", "a\nb", "\r\n", 'q"q', "c,d", "semi;colon", "tab\there", "", " lead", "trail ", "caf\u00e9", "x" * 300, "'single'", "a\\b"]


def gen_cases(tier, seed):
    rng = pyrandom.Random(f"c20-{seed}")
    plan = PLAN[tier]
    for i in range(plan["inproc"]):
        yield {"kind": "inproc", "nobj": rng.choice([1, 1, 2, 3, 4]), "fields": rng.choice(["default", "default", "explicit", "extra", "extra", "explicit+extra", "empty+extra", "default+noextra", "default+override", "explicit+override", "explicit+extra+shared", "explicit+none+shared"]), "only_best": rng.random() < 0.4, "n": rng.randint(1, 25), "via": "simplegp" if i % 12 == 0 else "direct", "seed": rng.randrange(10**6)}
    for i in range(plan["strace"]):
        yield {"kind": "strace", "nobj": rng.choice([1, 2, 3]), "only_best": i % 3 == 0, "alg": rng.choice(["rs", "gp"]), "n": rng.randint(15, 40), "seed": rng.randrange(10**6)}
    for i in range(plan["failpoints"]):
        yield {"kind": "crash", "mode": "failpoint", "point": 1 + (i * 7) % 230, "nobj": rng.choice([1, 2, 3]), "only_best": i % 4 == 0, "alg": rng.choice(["rs", "rs", "gp"]), "n": 30, "seed": rng.randrange(10**4)}
    for i in range(plan["sigkill"]):
        yield {"kind": "crash", "mode": "sigkill", "delay_ms": rng.choice([350, 420, 480, 550, 650, 800]), "nobj": rng.choice([1, 2]), "only_best": False, "alg": "rs", "n": 4000, "seed": rng.randrange(10**4)}


def setup(rec):
    core.SCRATCH = tempfile.mkdtemp(prefix="gev-c20-")


def teardown(rec):
    shutil.rmtree(getattr(core, "SCRATCH", ""), ignore_errors=True)


def run_case(case, rec):
    if case["kind"] == "inproc":
        return run_inproc(case, rec)
    if case["kind"] == "strace":
        return run_strace(case, rec)
    return run_crash(case, rec)


# ---------------------------------------------------------------------------------------- (a) in-process


def parse_disk(path):
    data = open(path, "rb").read().decode("utf-8", "replace")
    complete = data == "" or data.endswith("\n")
    rows = list(csv.reader(io.StringIO(data, newline="")))
    return data, complete, rows


def cell_equal(name, a, b):
    if name == "Execution Time":
        return True
    try:
        return float(a) == float(b)
    except (TypeError, ValueError):
        return str(a) == str(b)


def run_inproc(case, rec):
    from geneticengine.evaluation.recorder import CSVSearchRecorder
    from geneticengine.evaluation.sequential import SequentialEvaluator
    from geneticengine.evaluation.tracker import MultiObjectiveProgressTracker, SingleObjectiveProgressTracker
    from geneticengine.problems import MultiObjectiveProblem, SingleObjectiveProblem

    if case["via"] == "simplegp":
        return run_simplegp(case, rec)
    g, _ = evo.tiny()
    src = workload.native(case["seed"])
    rng = pyrandom.Random(case["seed"])
    rep = evo.make_rep("tree", g, src)
    nobj = case["nobj"]
    inds = evo.individuals(rep, src, case["n"])
    table = {}
    for ind in inds:
        table[id(ind.get_phenotype())] = [float(rng.choice([0, 1, 2, 3, 5, 8])) + k * 100 for k in range(nobj)]

    def fm(p):
        return list(table[id(p)])

    prob = SingleObjectiveProblem(lambda p: table[id(p)][0], minimize=rng.random() < 0.5) if nobj == 1 else MultiObjectiveProblem([rng.random() < 0.5 for _ in range(nobj)], fm)
    lazily_sized = nobj > 1 and pyrandom.Random(f"lazy-{case['seed']}").random() < 0.4
    if lazily_sized:
        # "When a bool is passed all the fitness components are minimized or maximized": the number of objectives is only
        # known once an individual has been evaluated, so the standard columns cannot be named before the first row
        prob = MultiObjectiveProblem(case["seed"] % 2 == 0, fm)
        rec.count("recorders_on_lazily_sized_problems")
    path = os.path.join(core.SCRATCH, f"inproc-{case['seed']}.csv")
    def nasty(i):  # one special character at a time, chosen by the program (quoting must hold for each on its own)
        k = evo.stable_hash(evo.text(i.get_phenotype())) % len(NASTY)
        return NASTY[k]

    extra = {"Size": lambda t, i, p: len(evo.text(i.get_phenotype())), "Tag": lambda t, i, p: "x," + evo.text(i.get_phenotype())[:6] + '"q', "Raw": lambda t, i, p: nasty(i)}
    # configuration = (fields: not given / explicit / explicitly EMPTY) x (extra_fields: not given / given / explicitly empty)
    base_cfg, _, extra_cfg = case["fields"].partition("+")
    if base_cfg == "extra":
        base_cfg, extra_cfg = "default", "extra"
    fields = None
    if base_cfg == "explicit":
        fields = {"A": lambda t, i, p: evo.text(i.get_phenotype()), "B": lambda t, i, p: i.get_fitness(p).fitness_components[-1]}
    elif base_cfg == "empty":
        fields = {}  # "none of the standard columns"
    model_fields: list = []
    if base_cfg == "explicit":
        model_fields = [("A", lambda i: evo.text(i.get_phenotype())), ("B", lambda i: table[id(i.get_phenotype())][-1])]
    elif base_cfg == "default":
        model_fields = [("Execution Time", None), ("Phenotype", lambda i: str(i.get_phenotype()))] + [(f"Fitness{k}", (lambda i, k=k: table[id(i.get_phenotype())][k])) for k in range(nobj)]
    shared = extra_cfg.endswith("+shared")
    extra_cfg = extra_cfg.replace("+shared", "")
    if extra_cfg == "extra":
        model_fields += [("Size", lambda i: len(evo.text(i.get_phenotype()))), ("Tag", lambda i: "x," + evo.text(i.get_phenotype())[:6] + '"q'), ("Raw", nasty)]
    if extra_cfg == "override":
        # an extra field named like an existing column takes that column over (one column per configured NAME)
        taken = "Phenotype" if base_cfg == "default" else "B"
        extra = {taken: lambda t, i, p: "over:" + evo.text(i.get_phenotype())[:5], "Size": lambda t, i, p: len(evo.text(i.get_phenotype()))}
        model_fields = [(n, (lambda i: "over:" + evo.text(i.get_phenotype())[:5]) if n == taken else fn) for n, fn in model_fields] + [("Size", lambda i: len(evo.text(i.get_phenotype())))]
    rec.count(f"field_configuration:{base_cfg}+{extra_cfg or 'none'}{'+shared' if shared else ''}")
    wit = {"objectives": nobj, "fields": case["fields"], "only_best": case["only_best"], "registrations": case["n"]}
    state = {"expected": [], "bad": False}

    class Probe(CSVSearchRecorder):
        def register(self, tracker, individual, problem, is_best=False):
            super().register(tracker, individual, problem, is_best)
            if not case["only_best"] or is_best:
                state["expected"].append(individual)
            check_disk("after-register")

    def check_disk(when):
        if state["bad"]:
            return
        rec.count("disk_reads_after_register")
        rec.count("evaluations")
        data, complete, rows = parse_disk(path)
        names = [n for n, _ in model_fields]
        if when == "after-construction" and lazily_sized and base_cfg == "default" and not data:
            # the standard columns of a lazily sized problem cannot be known yet: an empty file is a valid prefix; the
            # property speaks about the file after every REGISTRATION
            rec.count("empty_file_before_the_first_registration_of_a_lazily_sized_problem")
            return
        if not rows or rows[0] != names:
            rec.violation(f"csv:header-wrong:{when}", dict(wit, header=rows[0] if rows else None, expected=names))
            state["bad"] = True
            return
        if not complete or any(len(r) != len(names) for r in rows[1:]):
            rec.violation(f"csv:partial-or-malformed-row-on-disk:{when}", dict(wit, tail=data[-80:]))
            state["bad"] = True
            return
        if len(rows) - 1 != len(state["expected"]):
            rec.violation(f"csv:{'lag' if len(rows) - 1 < len(state['expected']) else 'extra-rows'}:{'only-best' if case['only_best'] else 'all'}", dict(wit, rows_on_disk=len(rows) - 1, registrations_recorded=len(state["expected"])))
            state["bad"] = True
            return
        for j, (row, ind) in enumerate(zip(rows[1:], state["expected"])):
            if j < len(rows) - 2 and when == "after-register":
                continue  # earlier rows were compared at their own registration
            rec.count("rows_compared")
            if nobj > 1:
                rec.count("multi_objective_rows")
            for (name, fn), cell in zip(model_fields, row):
                if fn is None:
                    continue
                if name in ("Size", "Tag", "Raw"):
                    rec.count("extra_field_cells")
                    if name == "Raw":
                        rec.set_add("special_cells_seen", repr(fn(ind)))
                if not cell_equal(name, cell, fn(ind)):
                    kind = "fitness-column" if name.startswith("Fitness") else ("extra-field" if name in ("Size", "Tag", "Raw") else "field")
                    rec.violation(f"csv:{kind}-holds-wrong-value:{'multi' if nobj > 1 else 'single'}", dict(wit, row=j, column=name, on_disk=cell, expected=str(fn(ind))))
                    state["bad"] = True
                    return

    try:
        r = Probe(path, prob, fields=fields, extra_fields=extra if extra_cfg in ("extra", "override") else ({} if extra_cfg == "noextra" else None), only_record_best_individuals=case["only_best"])
        check_disk("after-construction")
        # the caller's dicts go on to configure something else: a recorder keeps the columns it was constructed with
        for d in (fields, extra):
            if isinstance(d, dict):
                d["AddedAfterConstruction"] = lambda t, i, p: "late"
        rec.count("configuration_dicts_changed_after_construction")
        if shared and fields is not None:
            # a second recorder configured from the SAME fields dict, with another extra column: each log has its own columns
            other = CSVSearchRecorder(path + ".other", prob, fields=fields, extra_fields={"OnlyInTheOther": lambda t, i, p: "o"}, only_record_best_individuals=False)
            other.csv_file.close()
            rec.count("recorders_sharing_a_fields_dict")
        tr = (SingleObjectiveProgressTracker if nobj == 1 else MultiObjectiveProgressTracker)(prob, SequentialEvaluator(), recorders=[r])
        order = list(inds)
        for ind in inds:
            tr.evaluate([ind])
        # survivors are registered again with every later generation (Population re-registers the elites): in record-all
        # mode that is one more row each, in best-only mode it is no improvement
        for j in range(0, len(inds), 3):
            tr.evaluate([inds[j]])
            order.append(inds[j])
            rec.count("re_registrations")
        r.csv_file.close()
    except core.CaseTimeout:
        raise
    except BaseException as e:  # noqa
        rec.violation(f"csv:recorder-raises:{type(e).__name__}@{core.exc_site(e)}", dict(wit, error=core.short(e)))
        return
    if case["only_best"]:
        rec.count("only_best_runs")
        # only strict improvements (single objective): sequential model of best-so-far on the direction-aware value
        # (several objectives: a strict improvement of the aggregate the trackers rank by - the signed sum)
        best = None
        exp = []
        mins = prob.minimize if isinstance(prob.minimize, list) else [prob.minimize] * nobj
        for ind in order:
            v = sum(-c if m else c for c, m in zip(table[id(ind.get_phenotype())][: max(1, nobj)], mins))
            if best is None or v > best:
                exp.append(ind)
                best = v
        if nobj > 1:
            rec.count("only_best_runs_with_several_objectives")
        if [id(x) for x in exp] != [id(x) for x in state["expected"]]:
            rec.violation(f"csv:only-best-mode-records-wrong-individuals:{'single' if nobj == 1 else 'multi'}", dict(wit, recorded=len(state["expected"]), strict_improvements=len(exp)))
    data, _, rows = parse_disk(path)
    if len(rows) > 1:
        rec.distinct_add([wit, core.h(re.sub(r"^[0-9.e-]+,", "", data, flags=re.M))])
    rec.sample(dict(wit, header=rows[0] if rows else None, rows=len(rows) - 1, last_row=rows[-1][1:] if len(rows) > 1 else None), cap=3)
    os.unlink(path)


def run_simplegp_ambiguous(case, rec):
    """SimpleGP on a grammar whose __str__ is not injective: rows are matched to the registered individuals through a
    spy recorder (extension API), never through the printed program."""
    from geml.simplegp import SimpleGP

    g, mod = evo.tiny_ambiguous()
    nobj = case["nobj"]
    path = os.path.join(core.SCRATCH, f"simplegp-amb-{case['seed']}.csv")

    def fs(p):
        return float(p.value() % 5)

    def fm(p):
        return [float((p.value() + i) % 5) + 100 * i for i in range(nobj)]

    cbs = {"Value": lambda p: p.value(), "LeftDepth": lambda p: p.left_depth()}
    wit = {"objectives": nobj, "via": "SimpleGP", "grammar": "non-injective __str__", "only_best": case["only_best"]}
    R = evo.make_recorder_class()
    spy = R()
    a, b = mod.Sub(mod.Sub(mod.Lit(7), mod.Lit(2)), mod.Lit(1)), mod.Sub(mod.Lit(7), mod.Sub(mod.Lit(2), mod.Lit(1)))
    try:
        gp = SimpleGP(fs if nobj == 1 else fm, g, minimize=False if nobj == 1 else [i % 2 == 0 for i in range(nobj)], max_depth=4, max_evaluations=40, max_time=30, csv_output=path, csv_extra_fields=cbs, only_record_best_individuals=case["only_best"], seed=case["seed"], population_size=6, elitism=1, novelty=1, initial_population=[a, b] if case["seed"] % 2 else [b, a])
        gp.gp.tracker.recorders.append(spy)
        gp.search()
        gp.gp.tracker.recorders[0].csv_file.close()
    except core.CaseTimeout:
        raise
    except BaseException as e:  # noqa
        rec.violation(f"csv:simplegp-raises:{type(e).__name__}@{core.exc_site(e)}", dict(wit, error=core.short(e)))
        return
    rec.count("simplegp_runs")
    rec.count("simplegp_ambiguous_runs")
    rec.count("evaluations")
    data, complete, rows = parse_disk(path)
    expected = [e[0] for e in spy.events if (not case["only_best"]) or e[1]]
    if not rows or not complete or len(rows) - 1 != len(expected):
        rec.violation("csv:simplegp-row-count", dict(wit, rows=len(rows) - 1, registrations_recorded=len(expected)))
        return
    names = rows[0]
    texts = set()
    for j, (row, ind) in enumerate(zip(rows[1:], expected)):
        rec.count("rows_compared")
        d = dict(zip(names, row))
        p = ind.get_phenotype()
        if str(p) in texts:
            rec.count("rows_of_lookalike_programs")
        texts.add(str(p))
        comps = [fs(p)] if nobj == 1 else fm(p)
        for k, c in enumerate(comps):
            if not cell_equal("f", d.get(f"Fitness{k}"), c):
                rec.violation(f"csv:fitness-column-holds-wrong-value:{'multi' if nobj > 1 else 'single'}", dict(wit, row=j, column=f"Fitness{k}", on_disk=d.get(f"Fitness{k}"), expected=c))
                return
        for name, fn in cbs.items():
            rec.count("extra_field_cells")
            if str(d.get(name)) != str(fn(p)):
                rec.violation("csv:extra-field-holds-wrong-value:simplegp", dict(wit, row=j, column=name, on_disk=d.get(name), expected=str(fn(p)), program_prints_as=str(p)))
                return
    rec.distinct_add([wit, len(rows), sorted(texts)[:4]])
    os.unlink(path)


def run_simplegp(case, rec):
    if case["seed"] % 3 != 0:
        return run_simplegp_ambiguous(case, rec)
    from geml.simplegp import SimpleGP

    g, _ = evo.tiny()
    nobj = case["nobj"]
    path = os.path.join(core.SCRATCH, f"simplegp-{case['seed']}.csv")

    def fs(p):
        return float(evo.stable_hash(evo.text(p)) % 17)

    def fm(p):
        h = evo.stable_hash(evo.text(p))
        return [float((h >> (4 * i)) % 11) + 100 * i for i in range(nobj)]

    cbs = {"Len": lambda p: len(evo.text(p)), "Head": lambda p: evo.text(p)[:4], "Parens": lambda p: evo.text(p).count("(")}
    model = {"Len": lambda p: len(evo.text(p)), "Head": lambda p: evo.text(p)[:4], "Parens": lambda p: evo.text(p).count("(")}
    wit = {"objectives": nobj, "via": "SimpleGP", "only_best": case["only_best"], "extra_fields": list(cbs)}
    try:
        gp = SimpleGP(fs if nobj == 1 else fm, g, minimize=False if nobj == 1 else [i % 2 == 0 for i in range(nobj)], max_depth=4, max_evaluations=40, max_time=30, csv_output=path, csv_extra_fields=cbs, only_record_best_individuals=case["only_best"], seed=case["seed"], population_size=6, elitism=1, novelty=1)
        gp.search()
        gp.gp.tracker.recorders[0].csv_file.close()
    except core.CaseTimeout:
        raise
    except BaseException as e:  # noqa
        rec.violation(f"csv:simplegp-raises:{type(e).__name__}@{core.exc_site(e)}", dict(wit, error=core.short(e)))
        return
    rec.count("simplegp_runs")
    rec.count("evaluations")
    data, complete, rows = parse_disk(path)
    if not rows or not complete:
        rec.violation("csv:simplegp-file-incomplete", wit)
        return
    names = rows[0]
    # the Phenotype column holds str(program); recompute every other column from it
    import gev.evo as E

    by_text = {}
    for row in rows[1:]:
        rec.count("rows_compared")
        if nobj > 1:
            rec.count("multi_objective_rows")
        d = dict(zip(names, row))
        prog_txt = d.get("Phenotype", "")
        p = _parse_tiny(prog_txt)
        if p is None:
            rec.count("simplegp_rows_unparsed")
            continue
        comps = [fs(p)] if nobj == 1 else fm(p)
        for k, c in enumerate(comps):
            if not cell_equal("f", d.get(f"Fitness{k}"), c):
                rec.violation(f"csv:fitness-column-holds-wrong-value:{'multi' if nobj > 1 else 'single'}", dict(wit, column=f"Fitness{k}", on_disk=d.get(f"Fitness{k}"), expected=c))
                return
        for name, fn in model.items():
            rec.count("extra_field_cells")
            if str(d.get(name)) != str(fn(p)):
                rec.violation("csv:extra-field-holds-wrong-value:simplegp", dict(wit, column=name, on_disk=d.get(name), expected=str(fn(p)), program=prog_txt[:60]))
                return
        by_text[prog_txt] = True
    rec.distinct_add([wit, sorted(by_text)[:5], len(rows)])
    rec.sample(dict(wit, header=names, rows=len(rows) - 1), cap=2)
    _ = E
    os.unlink(path)


def _parse_tiny(txt):
    """Rebuilds a tiny-grammar program from its dataclass repr, e.g. Plus(l=Leaf(), r=Lit(v=3))."""
    _, mod = evo.tiny()
    try:
        return eval(txt, {"__builtins__": {}}, {k: getattr(mod, k) for k in ("Leaf", "Lit", "Plus", "Neg")})
    except Exception:  # noqa
        return None


# ---------------------------------------------------------------------------------------- (b)/(c) children


def child_cmd(csv_path, side, case, failpoint=None):
    cmd = [core.PY, "-m", "gev.child_c20", csv_path, side, str(case["seed"]), str(case["n"]), str(case["nobj"]), "1" if case["only_best"] else "0", case["alg"]]
    if failpoint is not None:
        cmd.append(str(failpoint))
    return cmd


def strip_time(rows):
    return [r[1:] for r in rows]


def run_strace(case, rec):
    d = tempfile.mkdtemp(prefix="st-", dir=core.SCRATCH)
    csv_path, side, trace = os.path.join(d, "log.csv"), os.path.join(d, "side"), os.path.join(d, "trace")
    cmd = ["strace", "-f", "-y", "-xx", "-s", "100000", "-e", "trace=write", "-o", trace] + child_cmd(csv_path, side, case)
    try:
        p = subprocess.run(cmd, cwd=str(core.VERIF), env=core.child_env(), capture_output=True, timeout=80)
    except subprocess.TimeoutExpired:
        rec.note_inconclusive("strace child exceeded the wall-clock watchdog")
        return
    if p.returncode != 0 or not os.path.exists(trace):
        rec.note_inconclusive(f"strace child failed: exit {p.returncode}: {p.stderr[-300:]!r}")
        return
    rec.count("strace_runs")
    rec.count("evaluations")
    wit = {"objectives": case["nobj"], "only_best": case["only_best"], "alg": case["alg"]}
    rows_written = 0  # complete data rows + header written so far
    markers = 0
    pat = re.compile(r'write\((\d+)<([^>]*)>, "((?:\\x[0-9a-f]{2})*)"(?:\.\.\.)?, (\d+)\)\s+= (\d+)')
    bad = False
    for ln in open(trace, errors="replace"):
        m = pat.search(ln)
        if not m:
            continue
        fd, target, hexs, asked, done = m.groups()
        payload = bytes(int(h, 16) for h in re.findall(r"\\x([0-9a-f]{2})", hexs))
        if "\\x" in target:  # -xx hex-encodes the descriptor path as well
            target = bytes(int(h, 16) for h in re.findall(r"\\x([0-9a-f]{2})", target)).decode("utf-8", "replace")
        if target == csv_path:
            rec.count("strace_writes")
            text = payload.decode("utf-8", "replace")
            if int(asked) != int(done):
                rec.violation("csv:short-write-not-handled", dict(wit, asked=asked, done=done))
                bad = True
                break
            if not text.endswith("\n"):
                rec.violation("csv:write-payload-ends-inside-a-row", dict(wit, payload_tail=text[-60:], rows_so_far=rows_written))
                bad = True
                break
            rows_written += len(list(csv.reader(io.StringIO(text, newline=""))))
        elif fd == "2" and payload.startswith(b"GEVREG "):
            markers = int(payload.split()[1])
            if rows_written - 1 != markers:
                rec.violation(f"csv:{'lag' if rows_written - 1 < markers else 'extra-rows'}:write-history", dict(wit, registrations_completed=markers, rows_written=rows_written - 1))
                bad = True
                break
    if not bad:
        if markers == 0:
            rec.note_inconclusive("strace history contained no registration marker")
        rec.distinct_add(["strace", wit, markers, rows_written])
        rec.sample(dict(wit, registrations=markers, csv_rows_written=rows_written - 1), cap=2)
    shutil.rmtree(d, ignore_errors=True)


REFERENCE: dict = {}


def reference_rows(case):
    key = (case["seed"], case["n"], case["nobj"], case["only_best"], case["alg"])
    if key in REFERENCE:
        return REFERENCE[key]
    d = tempfile.mkdtemp(prefix="ref-", dir=core.SCRATCH)
    csv_path, side = os.path.join(d, "log.csv"), os.path.join(d, "side")
    p = subprocess.run(child_cmd(csv_path, side, case), cwd=str(core.VERIF), env=core.child_env(), capture_output=True, timeout=80)
    if p.returncode != 0:
        REFERENCE[key] = None
        return None
    _, _, rows = parse_disk(csv_path)
    REFERENCE[key] = strip_time(rows)
    shutil.rmtree(d, ignore_errors=True)
    return REFERENCE[key]


def run_crash(case, rec):
    d = tempfile.mkdtemp(prefix="kill-", dir=core.SCRATCH)
    csv_path, side = os.path.join(d, "log.csv"), os.path.join(d, "side")
    wit = {"mode": case["mode"], "objectives": case["nobj"], "only_best": case["only_best"], "alg": case["alg"]}
    try:
        if case["mode"] == "failpoint":
            p = subprocess.run(child_cmd(csv_path, side, case, case["point"]), cwd=str(core.VERIF), env=core.child_env(), capture_output=True, timeout=80)
            where = re.search(rb"GEVKILL at (\S+)", p.stderr)
            if p.returncode != 9 or not where:
                rec.count("failpoints_beyond_the_run")  # the run finished before the n-th event
                killed_at = None
            else:
                killed_at = where.group(1).decode()
            wit["failpoint"] = case["point"]
        else:
            proc = subprocess.Popen(child_cmd(csv_path, side, case), cwd=str(core.VERIF), env=core.child_env(), stdout=subprocess.DEVNULL, stderr=subprocess.DEVNULL)
            time.sleep(case["delay_ms"] / 1000.0)
            proc.send_signal(signal.SIGKILL)
            proc.wait()
            killed_at = f"sigkill+{case['delay_ms']}ms"
            wit["delay_ms"] = case["delay_ms"]
    except subprocess.TimeoutExpired:
        rec.note_inconclusive("crash child exceeded the wall-clock watchdog")
        return
    if killed_at is None:
        shutil.rmtree(d, ignore_errors=True)
        return
    completed = 0
    if os.path.exists(side):
        completed = sum(1 for ln in open(side) if ln.startswith("REG "))
    rec.count("crash_files_checked")
    rec.count("evaluations")
    if not os.path.exists(csv_path):
        if completed:
            rec.violation("csv:file-missing-after-crash", dict(wit, completed_registrations=completed))
        shutil.rmtree(d, ignore_errors=True)
        return
    data, complete, rows = parse_disk(csv_path)
    kp = killed_at if case["mode"] == "failpoint" else f"sigkill:{min(completed, 9999) // 50 * 50}+"
    rec.set_add("kill_points", kp)
    wit["killed_at"] = killed_at
    wit["completed_registrations"] = completed
    ok = True
    if not complete:
        rec.violation(f"csv:partial-row-left-by-crash:{case['mode']}", dict(wit, tail=data[-80:]))
        ok = False
    elif data == "" and completed > 0:
        rec.violation("csv:empty-file-after-completed-registrations", wit)
        ok = False
    elif rows:
        ncol = len(rows[0])
        if any(len(r) != ncol for r in rows[1:]):
            rec.violation(f"csv:malformed-row-left-by-crash:{case['mode']}", dict(wit))
            ok = False
        elif len(rows) - 1 < completed:
            rec.violation(f"csv:lag:crash-{case['mode']}", dict(wit, rows_on_disk=len(rows) - 1))
            ok = False
        elif case["mode"] == "failpoint":
            ref = reference_rows(case)
            if ref is None:
                rec.note_inconclusive("reference run of a crash case failed")
            elif strip_time(rows) != ref[: len(rows)]:
                rec.violation("csv:crashed-file-is-not-a-prefix-of-the-full-log", dict(wit, rows_on_disk=len(rows) - 1))
                ok = False
    if ok:
        rec.distinct_add(["crash", kp, len(rows)])
        rec.sample(dict(wit, rows_on_disk=max(0, len(rows) - 1)), cap=3)
    shutil.rmtree(d, ignore_errors=True)
