"""C17 - selection operators are sound (tournament and lexicase)."""

from __future__ import annotations

import itertools
import random as pyrandom
import statistics

from gev import core, evo, sources, workload

PROPERTY = "C17"
LEVEL = "exploration"
EXHAUSTIVE = True
TECHNIQUE = "runtime monitor: a recording RandomSource logs every draw made between two yields of the real TournamentSelection / LexicaseSelection, so each winner is checked against exactly the participants drawn for it (tournament) or against the existence of a case order under which it survives the (epsilon-)lexicase filter over the candidates still available (all case permutations); for populations <= 4 a scripted source enumerates ALL draw outcomes"
RULE = (
    "cases = (population 2..8 with prescribed fitness incl. ties, tournament size 1..n+2, with/without replacement, target 1..n - one case in five up to 2n+2, so that the pool is used up and refilled -, direction) and "
    "(population 2..7, 2-4 cases with per-case directions, values with ties, epsilon on/off, target 1..n); exhaustive cases enumerate every draw sequence; "
    "distinct_nontrivial = distinct (fitness table, parameters, winner sequence) observations"
)
ASSUMPTIONS = [
    "participants of a tournament = the objects returned by the source's choice/pop_random calls since the previous yield",
    "fitter = larger direction-aware value recomputed by the monitor from the prescribed raw values",
    "epsilon band = median absolute deviation of the case over the current candidates (the library's documented eq. 5) or over all available candidates; a winner is flagged only if it survives under neither",
    "without replacement: a winner leaves the pool of its tournament round only (library semantics); only membership of the given population is required across rounds",
]
PLAN = {
    "quick": {"shards": 8, "shard_timeout": 300, "case_timeout": 30, "tournament": 2500, "lexicase": 2500, "exhaustive": 80, "max_case_timeouts": 3},
    "thorough": {"shards": 16, "shard_timeout": 3600, "case_timeout": 120, "tournament": 1200000, "lexicase": 1200000, "exhaustive": 40000, "max_case_timeouts": 10},
}
THRESHOLDS = {
    "quick": {"tournament_winners": 4000, "lexicase_winners": 3000, "lexicase_later_winners": 1500, "epsilon_winners": 800, "exhaustive_spaces": 40, "exhaustive_runs": 2000, "tournaments_with_ties": 500, "lexicase_near_equal_values": 300, "lexicase_populations_with_repeated_objects": 300, "tournament_populations_with_repeated_objects": 300},
    "thorough": {"tournament_winners": 100000, "lexicase_winners": 80000, "exhaustive_spaces": 1000},
}


def gen_cases(tier, seed):
    rng = pyrandom.Random(f"c17-{seed}")
    plan = PLAN[tier]
    for _ in range(plan["tournament"]):
        n = rng.randint(2, 8)
        tpool = [0, 1, 1, 2, 3, 7] if rng.random() < 0.7 else [1e-6, 4e-6, 2e-6, 1.0, 1.000001, float("inf"), float("-inf"), 0.0]
        c = {"kind": "tournament", "values": [rng.choice(tpool) for _ in range(n)], "size": rng.randint(1, n + 2), "replacement": rng.random() < 0.5, "target": rng.randint(1, n) if rng.random() < 0.8 else rng.randint(n + 1, 2 * n + 2), "minimize": rng.random() < 0.5, "seed": rng.randrange(10**6)}  # (one in five asks for more winners than there are individuals: the pool is used up and refilled)
        yield with_copies(rng, c) if rng.random() < 0.25 else c
    for _ in range(plan["lexicase"]):
        n = rng.randint(2, 7)
        m = rng.randint(2, 4)
        eps = rng.random() < 0.35
        pool = [0, 1, 2] if not eps else [0, 0.5, 1, 2, 2.5, 4, 10]
        if not eps and rng.random() < 0.3:  # components that print alike but are not equal
            pool = [1e-6, 4e-6, 2e-6, 0.5, 0.500001]
        if rng.random() < 0.15:  # infinite penalties are ordinary floats (also under epsilon: the band must stay a number)
            pool = pool + [float("inf"), float("inf"), float("-inf")]
        c = {"kind": "lexicase", "values": [[rng.choice(pool) for _ in range(m)] for _ in range(n)], "minimize": [rng.random() < 0.5 for _ in range(m)], "epsilon": eps, "target": rng.randint(1, n), "seed": rng.randrange(10**6)}
        if rng.random() < 0.1:
            c["target"] = n + rng.randint(1, 3)  # asked for more than there is: no individual may come out twice
        yield with_copies(rng, c) if rng.random() < 0.3 else c
    for _ in range(plan["exhaustive"]):
        n = rng.randint(2, 4)
        if rng.random() < 0.5:
            yield {"kind": "tournament", "exhaustive": True, "values": [rng.choice([0, 1, 2]) for _ in range(n)], "size": rng.randint(1, 3), "replacement": rng.random() < 0.5, "target": rng.randint(1, min(n, 2)), "minimize": rng.random() < 0.5, "seed": 0}
        else:
            m = rng.randint(2, 3)
            c = {"kind": "lexicase", "exhaustive": True, "values": [[rng.choice([0, 1, 2]) for _ in range(m)] for _ in range(n)], "minimize": [rng.random() < 0.5 for _ in range(m)], "epsilon": False, "target": rng.randint(1, n), "seed": 0}
            yield with_copies(rng, c) if n >= 3 and rng.random() < 0.4 else c


def logging_source(base_cls):
    class Logging(base_cls):
        def choice(self, choices):
            r = super().choice(choices)
            self.drawn.append(r)
            return r

        def pop_random(self, lst):
            r = super().pop_random(lst)
            self.drawn.append(r)
            return r

    return Logging


NativeLogging = logging_source(workload.NativeRandomSource)
ScriptedLogging = logging_source(sources.ScriptedSource)


def population(case, multi):
    from geneticengine.evaluation.sequential import SequentialEvaluator
    from geneticengine.problems import MultiObjectiveProblem, SingleObjectiveProblem

    g, _ = evo.tiny()
    src0 = workload.native(12345 + len(case["values"]))
    rep = evo.make_rep("tree", g, src0)
    layout = case.get("layout") or list(range(len(case["values"])))
    distinct = evo.individuals(rep, src0, max(layout) + 1)
    inds = [distinct[j] for j in layout]  # the same Individual OBJECT may sit at several positions
    fit = evo.TableFitness()
    for ind, v in zip(inds, case["values"]):
        fit.prescribe(ind.get_phenotype(), [float(x) for x in v] if multi else float(v))
    prob = MultiObjectiveProblem(list(case["minimize"]), fit) if multi else SingleObjectiveProblem(fit, minimize=case["minimize"])
    ev = SequentialEvaluator()
    ev.evaluate(prob, inds)
    return rep, inds, fit, prob, ev


def with_copies(rng, case):
    """Puts the same Individual object at several positions (what tournament winners, elites and unchanged offspring
    look like to the next step): values are per OBJECT, so copies carry equal fitness."""
    n = len(case["values"])
    layout = list(range(n))
    for _ in range(rng.randint(1, max(1, n // 2))):
        layout[rng.randrange(n)] = layout[rng.randrange(n)]
    if len(set(layout)) == n:
        layout[-1] = layout[0]
    ren = {j: k for k, j in enumerate(dict.fromkeys(layout))}
    layout = [ren[j] for j in layout]
    base = {}
    for pos, j in enumerate(layout):
        base.setdefault(j, case["values"][pos])
    return dict(case, layout=layout, values=[base[j] for j in layout])


def run_case(case, rec):
    if case.get("layout"):
        rec.count(f"{case['kind']}_populations_with_repeated_objects")
    if case["kind"] == "tournament":
        runner = run_tournament
    else:
        runner = run_lexicase
    if case.get("exhaustive"):
        rec.count("exhaustive_spaces")
        n = 0
        try:
            trail: list | None = []
            while trail is not None:
                src = ScriptedLogging(trail)
                src.drawn = []
                runner(case, rec, src)
                n += 1
                rec.count("exhaustive_runs")
                if n > 4000:
                    rec.count("exhaustive_cut")
                    break
                trail = sources.next_trail(src.log)
        except sources.NotFiniteChoice:
            rec.count("exhaustive_not_finite")
        rec.sample({"exhaustive": case["kind"], "values": case["values"], "draw_sequences": n}, cap=5)
    else:
        src = NativeLogging(case["seed"])
        src.drawn = []
        runner(case, rec, src)


def run_tournament(case, rec, src):
    from geneticengine.algorithms.gp.operators.selection import TournamentSelection

    rep, inds, fit, prob, ev = population(case, False)
    good = {id(i): (-v if case["minimize"] else v) for i, v in zip(inds, case["values"])}
    step = TournamentSelection(case["size"], with_replacement=case["replacement"])
    wit = {"values": case["values"], "tournament_size": case["size"], "with_replacement": case["replacement"], "target": case["target"], "minimize": case["minimize"]}
    winners = []
    try:
        it = step.apply(prob, ev, rep, src, list(inds), case["target"], 1)
        while True:
            mark = len(src.drawn)
            try:
                w = next(it)
            except StopIteration:
                break
            participants = src.drawn[mark:]
            winners.append(w)
            rec.count("tournament_winners")
            rec.count("evaluations")
            if id(w) not in good:
                rec.violation("tournament:winner-not-in-population", wit)
                continue
            if not participants:
                rec.count("tournaments_without_logged_draws")
                continue
            if len({good[id(p)] for p in participants if id(p) in good}) < len(participants):
                rec.count("tournaments_with_ties")
            if all(p is not w for p in participants):
                rec.violation("tournament:winner-not-among-its-participants", dict(wit, participants=[case["values"][inds.index(p)] for p in participants if p in inds], winner=case["values"][inds.index(w)]))
            elif any(id(p) in good and good[id(p)] > good[id(w)] for p in participants):
                rec.violation(f"tournament:participant-fitter-than-winner:{'min' if case['minimize'] else 'max'}", dict(wit, participants=[case["values"][inds.index(p)] for p in participants if p in inds], winner=case["values"][inds.index(w)]))
    except core.CaseTimeout:
        raise
    except sources.NotFiniteChoice:
        raise
    except BaseException as e:  # noqa
        rec.violation(f"tournament:raises:{type(e).__name__}@{core.exc_site(e)}", dict(wit, error=core.short(e)))
        return
    if len(winners) != case["target"]:
        rec.violation("tournament:count", dict(wit, yielded=len(winners)))
    rec.distinct_add([case["values"], case["size"], case["replacement"], case["minimize"], [inds.index(w) for w in winners if w in inds]])
    if not case.get("exhaustive"):
        rec.sample(dict(wit, winners=[case["values"][inds.index(w)] for w in winners if w in inds]), cap=3)


def survives(values, minimize, avail, w, epsilon, dynamic):
    """Does some case order let index w survive the filter over the available indices?"""
    m = len(minimize)

    def mad(xs):
        med = statistics.median(xs)
        return statistics.median([abs(x - med) for x in xs])

    static_eps = [mad([values[i][c] for i in avail]) for c in range(m)] if epsilon else [0] * m
    for order in itertools.permutations(range(m)):
        cand = list(avail)
        for c in order:
            if len(cand) <= 1:
                break
            xs = [values[i][c] for i in cand]
            e = (mad(xs) if dynamic else static_eps[c]) if epsilon else 0
            if minimize[c]:
                thr = min(xs) + e
                cand = [i for i in cand if values[i][c] <= thr]
            else:
                thr = max(xs) - e
                cand = [i for i in cand if values[i][c] >= thr]
        if w in cand:
            return True
    return False


def run_lexicase(case, rec, src):
    from geneticengine.algorithms.gp.operators.selection import LexicaseSelection

    rep, inds, fit, prob, ev = population(case, True)
    step = LexicaseSelection(epsilon=case["epsilon"])
    wit = {"values": case["values"], "same_object_at": case.get("layout"), "minimize": case["minimize"], "epsilon": case["epsilon"], "target": case["target"]}
    avail = list(range(len(inds)))
    winners = []
    try:
        for nth, w in enumerate(step.apply(prob, ev, rep, src, list(inds), case["target"], 1)):
            rec.count("lexicase_winners")
            rec.count("evaluations")
            if any(0 < abs(a - b) < 1e-4 for row in case["values"] for a in row for b in row) or any(0 < abs(x[c] - y[c]) < 1e-4 for x in case["values"] for y in case["values"] for c in range(len(x))):
                rec.count("lexicase_near_equal_values")
            if nth > 0:
                rec.count("lexicase_later_winners")
            if case["epsilon"]:
                rec.count("epsilon_winners")
            if not any(x is w for x in inds):
                rec.violation("lexicase:winner-not-in-population", wit)
                continue
            idx = next((i for i in avail if inds[i] is w), None)  # any still-available position holding this object
            if idx is None:
                winners.append(next(i for i, x in enumerate(inds) if x is w))
                rec.violation("lexicase:more-copies-than-the-population-contains", dict(wit, winners=winners))
                continue
            winners.append(idx)
            if case["epsilon"] and any(v in (float("inf"), float("-inf")) for i in avail for v in case["values"][i]):
                # with infinite case values the width of the band (a median of |x - median|) may be inf - inf: the band is
                # not pinned there, so survival is not judged (membership, copies and "no exception" still are)
                rec.count("epsilon_winners_among_infinite_values")
                ok = True
            else:
                ok = survives(case["values"], case["minimize"], avail, idx, case["epsilon"], True) or (case["epsilon"] and survives(case["values"], case["minimize"], avail, idx, True, False))
            if not ok:
                rec.violation(f"lexicase:winner-survives-no-case-order:{'first' if nth == 0 else 'later'}:{'epsilon' if case['epsilon'] else 'plain'}", dict(wit, winner=case["values"][idx], nth=nth, available=[case["values"][i] for i in avail]))
            avail.remove(idx)
    except core.CaseTimeout:
        raise
    except sources.NotFiniteChoice:
        raise
    except BaseException as e:  # noqa
        if case["target"] > len(inds) and len(winners) >= len(inds):
            rec.count("lexicase_over_requests_refused_after_the_whole_population")  # nothing left to give: an error is an answer
            return
        rec.violation(f"lexicase:raises:{type(e).__name__}@{core.exc_site(e)}", dict(wit, error=core.short(e)))
        return
    if case["target"] > len(inds):
        rec.count("lexicase_over_requests")
    if len(winners) != case["target"] and case["target"] <= len(inds):
        rec.violation("lexicase:count", dict(wit, yielded=len(winners)))
    rec.distinct_add([case["values"], case["minimize"], case["epsilon"], winners])
    if not case.get("exhaustive"):
        rec.sample(dict(wit, winners=[case["values"][i] for i in winners]), cap=3)
