"""C13 - fitness is computed from the phenotype, once, and counted honestly; parallel == sequential."""

from __future__ import annotations

import copy
import math
import os
import random as pyrandom
import tempfile
import time

from gev import core, evo, workload

PROPERTY = "C13"
LEVEL = "exploration"
TECHNIQUE = "runtime monitor: the fitness function appends one O_APPEND line per invocation (pid, monotonic ns, program hash, value) to a history file shared with the pool workers; an offline checker relates the history to Individual.get_fitness, to the evaluator's counter and to a sequential reference evaluation of a deep copy; worker completion orders are varied by hash-dependent delays and counted; problems are also created and freed in succession over one population (address reuse observed and counted), never-mapped individuals go through the parallel evaluator"
RULE = (
    "sequential cases = (population mixing evaluated / new / duplicated individuals or a single one, single- or multi-objective problem in either direction, "
    "optional second problem sharing the individuals, re-presentation); run cases = GP / HC runs with elitism that re-present survivors; parallel cases = the same "
    "population evaluated by ParallelEvaluator and, on a deep copy, by SequentialEvaluator under a delaying landscape; "
    "distinct_nontrivial = distinct (population shape, problem kind, evaluator, invocation multiset) observations with at least one new individual"
)
ASSUMPTIONS = [
    "the fitness function is pure (value = function of the canonical program text), so the monitor can recompute it",
    "an individual is identified by the identity of its phenotype object in-process and by its position in the population across processes",
    "multi-objective problems without a user aggregate: aggregate = sum of components with the minimised ones negated",
]
PLAN = {
    "quick": {"shards": 8, "shard_timeout": 500, "case_timeout": 60, "seq": 1500, "runs": 150, "par": 48, "max_case_timeouts": 3},
    "thorough": {"shards": 8, "shard_timeout": 3600, "case_timeout": 90, "seq": 600000, "runs": 60000, "par": 6000, "max_case_timeouts": 10},
}
THRESHOLDS = {
    "quick": {"evaluators_shared_by_successive_trackers": 300, "factory_made_abc_grammars_evaluated_in_parallel": 3, "nested_class_grammars_evaluated_in_parallel": 3, "individuals_checked": 5000, "sequential_calls": 600, "multi_objective_calls": 200, "representations": 300, "shared_problem_cases": 100, "runs": 70, "parallel_calls": 40, "parallel_individuals": 150, "set:completion_orders": 5, "parallel_with_evaluated_members": 10, "parallel_batches_with_duplicates": 8, "runs_with_selection_after_variation": 30, "multi_returns:reused-list": 50, "multi_returns:tuple": 50, "parallel_batches_of_never_mapped_individuals": 10, "parallel_never_mapped:dsge": 3, "problem_churn_cases": 25, "main_script_children": 6, "rounds_on_a_reused_problem_address": 20},
    "thorough": {"individuals_checked": 120000, "parallel_calls": 600, "set:completion_orders": 40},
}

LOG_PATH = {"path": None}


def logged_fitness(p):
    """Module-level (picklable by reference) fitness: pure value + one O_APPEND line per invocation + hash-dependent delay."""
    t = evo.text(p)
    h = evo.stable_hash(t)
    delay = (h % 5) * 0.004 if os.environ.get("GEV_C13_DELAY") == "1" else 0.0
    if delay:
        time.sleep(delay)
    v = float(h % 13)
    if LOG_PATH["path"]:
        fd = os.open(LOG_PATH["path"], os.O_WRONLY | os.O_APPEND | os.O_CREAT)
        try:
            os.write(fd, f"{os.getpid()} {time.monotonic_ns()} {h} {v}\n".encode())
        finally:
            os.close(fd)
    return v


def logged_fitness_multi(p):
    v = logged_fitness(p)
    return [v] + pure_multi(p)[1:]


BUFFER = [0.0, 0.0, 0.0]


def logged_fitness_multi_buffer(p):
    """A fitness function that fills and returns ONE preallocated list (a common allocation-saving habit): what it
    returned for a program is what the list held when it returned."""
    BUFFER[:] = logged_fitness_multi(p)
    return BUFFER


def logged_fitness_multi_tuple(p):
    return tuple(logged_fitness_multi(p))


MULTI_FORMS = {"fresh-list": logged_fitness_multi, "reused-list": logged_fitness_multi_buffer, "tuple": logged_fitness_multi_tuple}


def pure_single(p):
    return float(evo.stable_hash(evo.text(p)) % 13)


def pure_multi(p):
    h = evo.stable_hash(evo.text(p))
    third = float((h >> 9) % 3)
    if (h >> 11) % 9 == 0:
        third = float("-inf")  # infinitely good when the objective is minimised, infinitely bad when it is maximised
    elif (h >> 11) % 9 == 1:
        third = float("inf")
    return [float(h % 13), float((h >> 5) % 7), third]


def read_log():
    if not LOG_PATH["path"] or not os.path.exists(LOG_PATH["path"]):
        return []
    out = []
    for ln in open(LOG_PATH["path"]).read().splitlines():
        parts = ln.split()
        if len(parts) == 4:
            out.append((int(parts[0]), int(parts[1]), int(parts[2]), float(parts[3])))
    return out


def gen_cases(tier, seed):
    rng = pyrandom.Random(f"c13-{seed}")
    plan = PLAN[tier]
    for i in range(plan["seq"]):
        yield {"kind": "seq", "n": rng.choice([1, 1, 2, 3, 5, 8]), "pre": rng.random(), "dups": rng.random() < 0.3, "multi": rng.random() < 0.4, "minimize": rng.random() < 0.5, "mins": [rng.random() < 0.5 for _ in range(3)], "bool_min": rng.random() < 0.3, "second": rng.random() < 0.3, "returns": rng.choice(["fresh-list", "reused-list", "tuple"]), "repr": rng.choice(["tree", "ge", "sge"]), "seed": rng.randrange(10**6)}
    for i in range(plan["runs"]):
        yield {"kind": "run", "alg": rng.choice(["gp", "gp", "hc"]), "step": rng.choice(["default", "default", "mut-then-tournament", "mut-then-elitism", "mut-then-evaluate"]), "pop": rng.choice([2, 3, 5, 8]), "budget": rng.randint(5, 40), "multi": rng.random() < 0.3, "returns": rng.choice(["fresh-list", "reused-list", "tuple"]), "minimize": rng.random() < 0.5, "repr": rng.choice(["tree", "ge"]), "seed": rng.randrange(10**6)}
    for i in range(max(30, plan["seq"] // 20)):
        yield {"kind": "churn", "n": rng.choice([2, 3, 5, 8]), "rounds": rng.choice([3, 4, 6]), "repr": rng.choice(["tree", "ge"]), "seed": rng.randrange(10**6)}
    for i in range(8 if tier == "quick" else 60):
        yield {"kind": "main-script", "seed": rng.randrange(1000)}
    for i in range(plan["par"]):
        yield {"kind": "par", "n": rng.choice([1, 2, 3, 4, 6, 8]), "pre": rng.choice([0.0, 0.0, 0.3, 0.6]), "dups": rng.random() < 0.4, "multi": rng.random() < 0.3, "bool_min": rng.random() < 0.5, "minimize": rng.random() < 0.5, "repr": rng.choice(["tree", "ge"]), "seed": rng.randrange(10**6)}
        if i % 2 == 0:  # (deterministic shares: coverage must not depend on the seed)
            yield {"kind": "par", "n": rng.choice([2, 3, 4, 6]), "pre": 0.0, "dups": rng.random() < 0.3, "multi": rng.random() < 0.3, "minimize": rng.random() < 0.5, "repr": ["dsge", "sge", "dsge", "stack", "dsge", "ge", "tree"][(i // 2) % 7], "fresh": True, "seed": rng.randrange(10**6)}


def setup(rec):
    d = tempfile.mkdtemp(prefix="gev-c13-")
    LOG_PATH["dir"] = d
    LOG_PATH["path"] = os.path.join(d, "invocations.log")


def teardown(rec):
    import shutil

    shutil.rmtree(LOG_PATH.get("dir", ""), ignore_errors=True)


def make_problem(case, single_f, multi_f, user_agg=False):
    from geneticengine.problems import MultiObjectiveProblem, SingleObjectiveProblem

    if case["multi"]:
        mins = case.get("mins", [case["minimize"]] * 3)
        if case.get("bool_min"):
            return MultiObjectiveProblem(case["minimize"], multi_f), [case["minimize"]] * 3
        return MultiObjectiveProblem(list(mins), multi_f), list(mins)
    return SingleObjectiveProblem(single_f, minimize=case["minimize"]), None


def expected(case, mins, p):
    if case["multi"]:
        comps = pure_multi(p)
        signed = [-c if m else c for c, m in zip(comps, mins)]
        # "sum of the components with the minimised ones negated"; infinitely bad on one objective is infinitely bad
        return (float("-inf") if float("-inf") in signed else sum(signed)), comps
    v = pure_single(p)
    return (-v if case["minimize"] else v), [v]


def check_individual(case, mins, ind, prob, rec, wit, where):
    rec.count("individuals_checked")
    rec.count("evaluations")
    try:
        f = ind.get_fitness(prob)
    except BaseException as e:  # noqa
        rec.violation(f"fitness-missing-after-evaluation:{where}", dict(wit, error=type(e).__name__))
        return
    agg, comps = expected(case, mins, ind.get_phenotype())
    if [float(x) for x in f.fitness_components] != comps:
        rec.violation(f"recorded-fitness-differs-from-fitness-function:{where}", dict(wit, recorded=list(f.fitness_components), recomputed=comps))
    elif f.maximizing_aggregate != agg and not (math.isfinite(agg) and math.isfinite(f.maximizing_aggregate) and abs(f.maximizing_aggregate - agg) <= 1e-9):
        rec.violation(f"aggregate-wrong:{'multi' if case['multi'] else 'single'}:{where}", dict(wit, recorded=f.maximizing_aggregate, expected=agg, components=comps, minimize=mins if case["multi"] else case["minimize"]))


def run_churn(case, rec):
    """One population, a succession of short-lived problems (a helper that builds a problem, scores the shared population
    and returns): each problem is freed before the next one is created, so the next one usually gets its ADDRESS.
    Whatever an individual remembers about a dead problem must not answer for the new one."""
    import gc

    from geneticengine.evaluation.sequential import SequentialEvaluator
    from geneticengine.problems import SingleObjectiveProblem

    g, _ = evo.tiny()
    src = workload.native(case["seed"])
    rep = evo.make_rep(case["repr"], g, src)
    inds = evo.individuals(rep, src, case["n"])
    if len(inds) < case["n"]:
        return
    calls = [0]
    shifts = [0.0, 100.0, 7.0, 100.0, 0.0, 31.0][: case["rounds"]]

    def make(shift):
        def f(p):
            calls[0] += 1
            return pure_single(p) + shift

        return f

    fns = [make(sh) for sh in shifts]  # created beforehand: nothing else is allocated between two problems
    wit = {"n": case["n"], "rounds": case["rounds"], "repr": case["repr"]}
    seen_ids = []
    rec.count("problem_churn_cases")
    for r, (fn, shift) in enumerate(zip(fns, shifts)):
        minimize = r % 3 == 0
        calls[0] = 0
        prob = SingleObjectiveProblem(fn, minimize=minimize)
        if id(prob) in seen_ids:
            rec.count("rounds_on_a_reused_problem_address")
        seen_ids.append(id(prob))
        ev = SequentialEvaluator()
        try:
            ev.evaluate(prob, inds)
            got = [(i.get_fitness(prob).fitness_components[0], i.get_fitness(prob).maximizing_aggregate) for i in inds]
        except core.CaseTimeout:
            raise
        except BaseException as e:  # noqa
            rec.violation(f"evaluate:raises:{type(e).__name__}@{core.exc_site(e)}", dict(wit, round=r, error=core.short(e)))
            return
        rec.count("churn_rounds")
        rec.count("evaluations")
        if calls[0] != len({id(i) for i in inds}) or ev.number_of_evaluations() != calls[0]:
            rec.violation("fitness-computed-more-or-less-than-once:new-problem-after-a-freed-one", dict(wit, round=r, invocations=calls[0], counter=ev.number_of_evaluations(), individuals=len(inds), address_reused=id(prob) in seen_ids[:-1]))
        for i, (comp, agg) in zip(inds, got):
            rec.count("individuals_checked")
            want = pure_single(i.get_phenotype()) + shift
            if comp != want or agg != (-want if minimize else want):
                rec.violation("recorded-fitness-differs-from-fitness-function:new-problem-after-a-freed-one", dict(wit, round=r, recorded=[comp, agg], expected=[want, -want if minimize else want], address_reused=id(prob) in seen_ids[:-1]))
                break
        del prob, ev, got
        gc.collect()
    rec.distinct_add(["churn", case["n"], case["rounds"], len(set(seen_ids))])


def run_main_script(case, rec):
    """An experiment script whose grammar classes and fitness function live in __main__ (child_c13_main.py, run as a
    script): parallel and sequential evaluation of the same individuals must record the same values, also for a second
    batch after a module-level setting changed."""
    import json
    import subprocess

    rec.count("main_script_children")
    rec.count("evaluations")
    p = subprocess.run([core.PY, str(core.VERIF / "gev" / "child_c13_main.py"), str(case["seed"])], cwd=str(core.VERIF), env=core.child_env({}), capture_output=True, text=True, timeout=120)
    out = next((json.loads(ln[8:]) for ln in p.stdout.splitlines() if ln.startswith("GEVJSON ")), None)
    wit = {"script": "gev/child_c13_main.py", "seed": case["seed"]}
    if out is None:
        rec.violation("parallel-evaluate:raises:in-a-main-script", dict(wit, stderr=p.stderr[-300:]))
        return
    for which in ("first", "second"):
        par, seq = out[which]
        rec.count("individuals_checked", len(par))
        if par != seq:
            rec.violation(f"parallel-differs-from-sequential:classes-and-settings-of-the-main-script:{which}-batch", dict(wit, parallel=par, sequential=seq))
    par, seq = out.get("factory", (None, None))
    if seq is not None:
        rec.count("factory_made_abc_grammars_evaluated_in_parallel")
        if isinstance(par, str):
            rec.violation("parallel-evaluate:raises:classes-made-by-a-factory", dict(wit, error=par))
        elif par != seq:
            rec.violation("parallel-differs-from-sequential:classes-made-by-a-factory", dict(wit, parallel=par, sequential=seq))
    par, seq = out.get("nested", (None, None))
    if seq is not None:
        # classes that are attributes of another class of the script (Lang.Lit), asked isinstance / type() by the script's
        # fitness function inside the workers
        rec.count("nested_class_grammars_evaluated_in_parallel")
        rec.count("individuals_checked", len(seq))
        if isinstance(par, str):
            rec.violation("parallel-evaluate:raises:classes-nested-in-a-class", dict(wit, error=par))
        elif par != seq:
            rec.violation("parallel-differs-from-sequential:classes-nested-in-a-class", dict(wit, parallel=par, sequential=seq))
        elif any(v <= -1000.0 for v in seq):
            rec.note_inconclusive("nested-class fixture: the sequential reference itself met a foreign class")
    rec.distinct_add(["main-script", case["seed"], out["first"][1], out["second"][1]])


def run_case(case, rec):
    if case.get("kind") == "churn":
        return run_churn(case, rec)
    if case.get("kind") == "main-script":
        return run_main_script(case, rec)
    if LOG_PATH["path"] and os.path.exists(LOG_PATH["path"]):
        os.unlink(LOG_PATH["path"])
    os.environ["GEV_C13_DELAY"] = "0"
    if case["kind"] == "seq":
        return run_seq(case, rec)
    if case["kind"] == "run":
        return run_run(case, rec)
    return run_par(case, rec)


def run_seq(case, rec):
    from geneticengine.evaluation.sequential import SequentialEvaluator

    g, _ = evo.tiny()
    src = workload.native(case["seed"])
    rng = pyrandom.Random(case["seed"])
    rep = evo.make_rep(case["repr"], g, src)
    inds = evo.individuals(rep, src, case["n"])
    if len(inds) < case["n"]:
        return
    prob, mins = make_problem(case, logged_fitness, MULTI_FORMS[case.get("returns", "fresh-list")])
    ev = SequentialEvaluator()
    wit = {k: case.get(k) for k in ("n", "multi", "minimize", "repr", "dups", "second", "returns")}
    if case["multi"]:
        rec.count(f"multi_returns:{case.get('returns', 'fresh-list')}")
    pre = [i for i in inds if rng.random() < case["pre"]]
    ev.evaluate(prob, pre)
    pop = list(inds)
    if case["dups"] and pop:
        pop = pop + [rng.choice(pop)]
    rng.shuffle(pop)
    before_log, before_count = len(read_log()), ev.number_of_evaluations()
    new = {id(i) for i in pop if not i.has_fitness(prob)}
    try:
        ev.evaluate(prob, pop)
        ev.evaluate(prob, pop)  # re-presentation adds nothing
        rec.count("representations")
    except core.CaseTimeout:
        raise
    except BaseException as e:  # noqa
        rec.violation(f"evaluate:raises:{type(e).__name__}@{core.exc_site(e)}", dict(wit, error=core.short(e)))
        return
    rec.count("sequential_calls")
    if case["multi"]:
        rec.count("multi_objective_calls")
    log = read_log()[before_log:]
    counted = ev.number_of_evaluations() - before_count
    if len(log) != counted:
        rec.violation(f"evaluation-counter-differs-from-invocations:{'multi' if case['multi'] else 'single'}:sequential", dict(wit, invocations=len(log), counter=counted, new_individuals=len(new)))
    if len(log) != len(new) and len(log) == counted:
        rec.violation("fitness-computed-more-or-less-than-once:sequential", dict(wit, invocations=len(log), new_individuals=len(new)))
    for ind in pop:
        check_individual(case, mins, ind, prob, rec, wit, "sequential")
    # one evaluator serving several trackers one after the other (a second search on the same worker pool, co-evolution):
    # the evaluator's counter stays the number of fitness-function invocations made through it, and a tracker built on an
    # evaluator that has already served counts the evaluations made since it was built
    from geneticengine.evaluation.tracker import MultiObjectiveProgressTracker, SingleObjectiveProgressTracker

    tracker_cls = MultiObjectiveProgressTracker if case["multi"] else SingleObjectiveProgressTracker
    ev0, l0 = ev.number_of_evaluations(), len(read_log())
    try:
        tr_a = tracker_cls(prob, ev)
        batch_a = evo.individuals(rep, src, 1 + case["seed"] % 3)
        tr_a.evaluate(batch_a)
        la = len(read_log())
        tr_b = tracker_cls(prob, ev)
        batch_b = evo.individuals(rep, src, 1 + (case["seed"] // 3) % 3)
        tr_b.evaluate(batch_b)
        counted_b, counted_ev = tr_b.get_number_evaluations(), ev.number_of_evaluations() - ev0
    except core.CaseTimeout:
        raise
    except BaseException as e:  # noqa
        rec.violation(f"evaluate:raises:{type(e).__name__}@{core.exc_site(e)}", dict(wit, error=core.short(e), where="trackers sharing an evaluator"))
        return
    inv_total, inv_b = len(read_log()) - l0, len(read_log()) - la
    rec.count("evaluators_shared_by_successive_trackers")
    rec.count("evaluations", inv_total)
    if counted_ev != inv_total:
        rec.violation(f"evaluation-counter-differs-from-invocations:{'multi' if case['multi'] else 'single'}:evaluator-shared-by-successive-trackers", dict(wit, invocations=inv_total, counter=counted_ev, first_tracker=len(batch_a), second_tracker=len(batch_b)))
    if counted_b != inv_b:
        rec.violation(f"tracker-count-differs-from-its-own-evaluations:{'multi' if case['multi'] else 'single'}:built-on-an-evaluator-that-has-served", dict(wit, invocations_since_built=inv_b, tracker_says=counted_b))
    if case["second"]:
        rec.count("shared_problem_cases")
        c2 = dict(case, multi=not case["multi"])
        prob2, mins2 = make_problem(c2, logged_fitness, logged_fitness_multi)
        b = len(read_log())
        ev2 = SequentialEvaluator()
        ev2.evaluate(prob2, pop)
        n2 = len(read_log()) - b
        if n2 != len({id(i) for i in pop}):
            rec.violation("second-problem:invocations-differ-from-individuals", dict(wit, invocations=n2, individuals=len({id(i) for i in pop})))
        for ind in pop:
            check_individual(c2, mins2, ind, prob2, rec, wit, "second-problem")
            check_individual(case, mins, ind, prob, rec, wit, "first-problem-after-second")
    if new:
        rec.distinct_add(["seq", case["n"], len(pre), case["dups"], case["multi"], case["minimize"], sorted(x[2] for x in log)])
    rec.sample(dict(wit, invocations=len(log), counter=counted, new=len(new)), cap=3)


def run_run(case, rec):
    from geneticengine.algorithms.gp.gp import GeneticProgramming
    from geneticengine.algorithms.hill_climbing import HC
    from geneticengine.evaluation.budget import EvaluationBudget
    from geneticengine.evaluation.sequential import SequentialEvaluator
    from geneticengine.evaluation.tracker import MultiObjectiveProgressTracker, SingleObjectiveProgressTracker

    g, _ = evo.tiny()
    src = workload.native(case["seed"])
    rep = evo.make_rep(case["repr"], g, src)
    seen: dict = {}
    keep = []

    def single(p):
        seen[id(p)] = seen.get(id(p), 0) + 1
        keep.append(p)
        return logged_fitness(p)

    def multi(p):
        seen[id(p)] = seen.get(id(p), 0) + 1
        keep.append(p)
        return MULTI_FORMS[case.get("returns", "fresh-list")](p)

    c = dict(case, mins=[case["minimize"], not case["minimize"], case["minimize"]])
    if case["alg"] == "hc":
        c["multi"] = False
    prob, mins = make_problem(c, single, multi)
    ev = SequentialEvaluator()
    R = evo.make_recorder_class()
    r = R()
    tr = (MultiObjectiveProgressTracker if c["multi"] else SingleObjectiveProgressTracker)(prob, ev, recorders=[r])
    from geneticengine.algorithms.gp.operators.combinators import ParallelStep, SequenceStep
    from geneticengine.algorithms.gp.operators.elitism import ElitismStep
    from geneticengine.algorithms.gp.operators.evaluation import EvaluateStep
    from geneticengine.algorithms.gp.operators.mutation import GenericMutationStep
    from geneticengine.algorithms.gp.operators.selection import TournamentSelection
    from geneticengine.evaluation.budget import AnyOf

    step = {
        "default": None,
        # selection / elitism / evaluation AFTER variation: the steps meet individuals without a fitness
        "mut-then-tournament": ParallelStep([ElitismStep(), SequenceStep(GenericMutationStep(1.0), TournamentSelection(2, with_replacement=True))], weights=[1, 3]),
        "mut-then-elitism": SequenceStep(GenericMutationStep(1.0), ElitismStep()),
        "mut-then-evaluate": SequenceStep(TournamentSelection(2), GenericMutationStep(1.0), EvaluateStep()),
    }[case.get("step", "default")]
    if step is not None:
        rec.count("runs_with_selection_after_variation")
    from gev import evo as _evo

    budget = AnyOf(EvaluationBudget(case["budget"]), _evo.check_count_budget(case["budget"] + 60))  # a dishonest counter must not hang the case
    alg = GeneticProgramming(prob, budget, rep, src, tracker=tr, population_size=case["pop"], step=step) if case["alg"] == "gp" else HC(prob, EvaluationBudget(case["budget"]), rep, src, tracker=tr, number_of_mutations=case["pop"])
    wit = {k: case[k] for k in ("alg", "pop", "budget", "multi", "minimize", "repr")}
    try:
        alg.search()
    except core.CaseTimeout:
        raise
    except BaseException as e:  # noqa
        rec.violation(f"search:raises:{type(e).__name__}@{core.exc_site(e)}", dict(wit, error=core.short(e)))
        return
    rec.count("runs")
    log = read_log()
    if len(log) != ev.number_of_evaluations():
        rec.violation(f"evaluation-counter-differs-from-invocations:{'multi' if c['multi'] else 'single'}:search", dict(wit, invocations=len(log), counter=ev.number_of_evaluations()))
    twice = [k for k, v in seen.items() if v > 1]
    per_ind = {}
    for ind, _, _, _ in r.events:
        per_ind[id(ind)] = ind
    over = [i for i in per_ind.values() if seen.get(id(i.get_phenotype()), 0) > 1]
    if over and len(log) == ev.number_of_evaluations():
        rec.violation("individual-evaluated-more-than-once:search", dict(wit, individuals=len(over)))
    for ind in per_ind.values():
        check_individual(c, mins, ind, prob, rec, wit, "search")
    rec.distinct_add(["run", case["alg"], case["pop"], case["budget"], c["multi"], len(log)])
    rec.sample(dict(wit, invocations=len(log), counter=ev.number_of_evaluations(), individuals=len(per_ind)), cap=3)
    _ = twice


def run_par(case, rec):
    from geneticengine.evaluation.parallel import ParallelEvaluator
    from geneticengine.evaluation.sequential import SequentialEvaluator

    g, _ = evo.tiny()
    src = workload.native(case["seed"])
    rng = pyrandom.Random(case["seed"])
    rep = evo.make_rep(case["repr"], g, src)
    if case.get("fresh"):
        # individuals that have never been mapped in this process (what a search hands to its evaluator first):
        # the program a worker derives must be the program the individual has afterwards
        from geneticengine.solutions.individual import Individual

        inds = [Individual(rep.create_genotype(src), rep) for _ in range(case["n"])]
        rec.count("parallel_batches_of_never_mapped_individuals")
        rec.count(f"parallel_never_mapped:{case['repr']}")
    else:
        inds = evo.individuals(rep, src, case["n"])
    if len(inds) < case["n"]:
        return
    prob, mins = make_problem(case, logged_fitness, logged_fitness_multi)
    wit = {k: case.get(k) for k in ("n", "multi", "minimize", "repr", "pre", "fresh")}
    pre = [i for i in inds if rng.random() < case["pre"]]
    SequentialEvaluator().evaluate(prob, pre)
    if pre:
        rec.count("parallel_with_evaluated_members")
    if case.get("dups") and inds:  # the same Individual object presented more than once in one batch
        inds = inds + [rng.choice(inds) for _ in range(rng.choice([1, 2, 3]))]
        rng.shuffle(inds)
        rec.count("parallel_batches_with_duplicates")
    twin = copy.deepcopy(inds)  # same genotypes, own fitness stores (deepcopy keeps the aliasing of duplicates)
    twin_prob = prob
    for a, b in zip(inds, twin):  # deepcopy drops weak-keyed fitness entries: restore the pre-evaluated ones
        if a.has_fitness(prob) and not b.has_fitness(twin_prob):
            b.set_fitness(twin_prob, a.get_fitness(prob))
    new_positions = []
    seen_new = set()
    for k, i in enumerate(inds):  # first presentation of every individual that has no fitness yet
        if not i.has_fitness(prob) and id(i) not in seen_new:
            seen_new.add(id(i))
            new_positions.append(k)
    os.environ["GEV_C13_DELAY"] = "1"
    pe = ParallelEvaluator()
    b0 = len(read_log())
    try:
        pe.evaluate(prob, inds)
    except core.CaseTimeout:
        raise
    except BaseException as e:  # noqa
        rec.violation(f"parallel-evaluate:raises:{type(e).__name__}@{core.exc_site(e)}", dict(wit, error=core.short(e)))
        return
    finally:
        os.environ["GEV_C13_DELAY"] = "0"
    plog = read_log()[b0:]
    if case["multi"] and case.get("bool_min") and new_positions:
        # a problem declared with minimize=<bool> learns its number of objectives at its first evaluation - which has just
        # happened, in a worker: the problem object of THIS process must know it too (lexicase selection asks it)
        rec.count("lazily_sized_problems_after_parallel_evaluation")
        try:
            if prob.number_of_objectives() != 3 or not isinstance(prob.minimize, list):
                rec.violation("problem-not-initialised-after-parallel-evaluation", dict(wit, objectives=prob.number_of_objectives(), minimize=repr(prob.minimize)))
        except core.CaseTimeout:
            raise
        except BaseException as e:  # noqa
            rec.violation("problem-not-initialised-after-parallel-evaluation", dict(wit, error=core.short(e)))
    rec.count("parallel_calls")
    rec.count("parallel_individuals", len(inds))
    if len(plog) != pe.number_of_evaluations():
        rec.violation(f"evaluation-counter-differs-from-invocations:{'multi' if case['multi'] else 'single'}:parallel", dict(wit, invocations=len(plog), counter=pe.number_of_evaluations(), new_individuals=len(new_positions)))
    if len(plog) != len(new_positions):
        rec.violation("fitness-computed-more-or-less-than-once:parallel", dict(wit, invocations=len(plog), new_individuals=len(new_positions), already_evaluated=len(inds) - len(new_positions)))
    se = SequentialEvaluator()
    se.evaluate(twin_prob, twin)
    for k, (a, b) in enumerate(zip(inds, twin)):
        check_individual(case, mins, a, prob, rec, wit, "parallel")
        fa, fb = a.get_fitness(prob), b.get_fitness(twin_prob)
        if list(fa.fitness_components) != list(fb.fitness_components) or fa.maximizing_aggregate != fb.maximizing_aggregate:
            rec.violation("parallel-differs-from-sequential", dict(wit, position=k, parallel=[fa.maximizing_aggregate, list(fa.fitness_components)], sequential=[fb.maximizing_aggregate, list(fb.fitness_components)]))
    # completion order of the workers, as positions of the new individuals
    hashes = [evo.stable_hash(evo.text(inds[k].get_phenotype())) for k in new_positions]
    order = []
    for _, _, h, _ in sorted(plog, key=lambda x: x[1]):
        cands = [j for j, hh in enumerate(hashes) if hh == h and j not in order]
        if cands:
            order.append(cands[0])
    if len(order) >= 2:
        rec.set_add("completion_orders", ",".join(map(str, order)))
    rec.set_add("worker_pids", str(len({x[0] for x in plog})))
    rec.distinct_add(["par", case["n"], len(pre), case["multi"], sorted(x[2] for x in plog)])
    rec.sample(dict(wit, invocations=len(plog), counter=pe.number_of_evaluations(), completion_order=order, worker_processes=len({x[0] for x in plog})), cap=3)
