"""C03 - depth limits are respected and every feasible depth limit is usable."""

from __future__ import annotations

import random as pyrandom

from gev import anchors, core, grammars, refmodel, stream, workload

PROPERTY = "C03"
LEVEL = "exploration"
TECHNIQUE = "runtime monitor: independent depth fold on every program returned under a depth limit (directly, through GE/SGE/dSGE mapping, initialisers, and after mutation/crossover), sweep of the limit from the grammar minimum upwards incl. the frontier; infeasible limits must be rejected with zero create_node entries (sys.monitoring counter)"
RULE = (
    "cases = (generated grammar, decider or dSGE or FullInitializer, direct / GE / SGE mapping, limit = grammar minimum + 0..4, seed); "
    "each case creates programs, applies mutation/crossover sequences and checks depth <= limit and absence of any exception; "
    "limit = minimum-1 must raise the library's error before any node is created; distinct_nontrivial = distinct (grammar, configuration, limit, canonical program)"
)
ASSUMPTIONS = [
    "depth = longest chain of nested grammar nodes; lists, tuples, annotations transparent (the property's own definition), in both depthing modes",
    "the grammar minimum is what Grammar.get_min_tree_depth() reports (its exactness is C05's business)",
    "grammars contain no refinement that can make every production infeasible (those belong to C10)",
    "FullDecider(m) used directly ends branches at m-1 (pinned by test_full); only depth <= m is required of it here",
]
PLAN = {
    "quick": {"shards": 8, "shard_timeout": 400, "case_timeout": 25, "grammars": 100, "max_case_timeouts": 6},
    "thorough": {"shards": 16, "shard_timeout": 3600, "case_timeout": 40, "grammars": 5000, "max_case_timeouts": 80},
}
THRESHOLDS = {
    "quick": {"programs_depth_checked": 3000, "frontier_programs": 500, "infeasible_probes": 40, "after_variation": 300, "via:ge": 100, "via:sge": 100, "via:dsge": 100, "via:direct": 300, "via:fullinit": 50, "via:rampedinit": 50, "via:pigrowinit": 50, "create_node_entries_seen": 1000, "sibling_grammars_run": 150, "deep_limit_programs": 100, "programs_deeper_than_100": 60},
    "thorough": {"programs_depth_checked": 60000, "frontier_programs": 10000, "infeasible_probes": 500, "after_variation": 6000},
}

VIAS = [("direct", "maxdepth"), ("direct", "full"), ("direct", "pigrow"), ("ge", "maxdepth"), ("ge", "pigrow"), ("sge", "maxdepth"), ("sge", "full"), ("dsge", "own"), ("fullinit", "full"), ("rampedinit", "maxdepth"), ("pigrowinit", "maxdepth")]


def gen_cases(tier, seed):
    rng = pyrandom.Random(f"c03-{seed}")
    descs = grammars.family(seed, PLAN[tier]["grammars"], "general")
    # weights do not enter the depth analysis: weighted grammars (zero weights included) must keep every limit usable
    descs = descs + grammars.family(seed + 29, max(10, PLAN[tier]["grammars"] // 5), "weighted", with_fixed=False)
    for desc in descs:
        d = dict(desc)
        if rng.random() < 0.15:
            d["expansion"] = True
        for via, dec in VIAS:
            for off in (0, rng.choice([1, 2, 3, 4])):
                yield {"desc": d, "via": via, "decider": dec, "offset": off, "seed": rng.randrange(10**6), "n": 12 if off == 0 else 6}
    yield from sibling_cases(rng, descs[: max(8, len(descs) // 3)])
    yield from deep_cases(rng, 3 if tier == "quick" else 40)


DEEP = [
    {
        "name": "deep_unary",
        "abstracts": [{"name": "Root", "parent": None, "style": "abc"}],
        "prods": [{"name": "Leaf", "parent": "Root", "fields": [["v", ["ann", ["int"], ["IntRange", 0, 3]]]]}, {"name": "Wrap", "parent": "Root", "fields": [["x", ["ref", "Root"]]]}],
        "start": "Root",
    },
    {
        "name": "deep_listed",
        "abstracts": [{"name": "Root", "parent": None, "style": "abc"}, {"name": "Mid", "parent": "Root", "style": "abc"}],
        "prods": [
            {"name": "Leaf", "parent": "Mid", "fields": []},
            {"name": "Seq", "parent": "Mid", "fields": [["xs", ["ann", ["list", ["ref", "Root"]], ["ListSizeBetween", 1, 1]]]]},
            {"name": "Wrap", "parent": "Root", "fields": [["x", ["ref", "Mid"]]]},
        ],
        "start": "Root",
    },
]


def deep_cases(rng, rounds):
    """Limits in the hundreds are as legal as limits below ten: deciders that fill the budget (full, PI-grow) on a
    unary-recursive grammar build trees exactly that deep, and variation must keep working under the same limit.
    The harness never raises the interpreter's recursion limit around a library call."""
    for _ in range(rounds):
        for desc in DEEP:
            for via, dec in (("direct", "full"), ("direct", "pigrow"), ("fullinit", "full"), ("ge", "pigrow"), ("sge", "full")):
                yield {"kind": "deep", "desc": dict(desc), "via": via, "decider": dec, "limit": rng.choice([150, 250, 400, 550, 700]), "seed": rng.randrange(10**6), "n": 3}


def sibling_cases(rng, descs):
    """The same classes used in two grammars inside one process (a language and a sub-language, or the two
    depthing modes): anything a decider remembers about one grammar must not leak into the other."""
    for desc in descs:
        for via, dec in (("direct", "maxdepth"), ("direct", "full"), ("direct", "pigrow"), ("ge", "maxdepth"), ("sge", "pigrow")):
            yield {"kind": "siblings", "desc": dict(desc), "via": via, "decider": dec, "variant": rng.choice(["drop-shallowest", "drop-shallowest", "other-depthing"]), "offset": rng.choice([0, 0, 1]), "seed": rng.randrange(10**6), "n": 6}


def _site(e):
    return f"{type(e).__name__}@{core.exc_site(e)}"


def run_siblings(case, rec):
    """Grammar A, then grammar B over the SAME class objects, then A again - each checked like any other case."""
    from geneticengine.grammar.grammar import extract_grammar

    built = grammars.materialise(case["desc"])
    try:
        exp = bool(case["desc"].get("expansion"))
        variants = [(built.classes, exp)]
        if case["variant"] == "other-depthing":
            variants.append((built.classes, not exp))
        else:
            # drop one field-less production per abstract type that has another production: the sub-language is deeper
            drop = set()
            for a in case["desc"]["abstracts"]:
                prods = [p for p in case["desc"]["prods"] if p.get("parent") == a["name"]]
                leaf = [p for p in prods if not p["fields"]]
                if len(prods) >= 2 and leaf:
                    drop.add(leaf[0]["name"])
            variants.append(([c for c in built.classes if c.__name__ not in drop], exp))
        variants.append(variants[0])
        for k, (classes, e) in enumerate(variants):
            try:
                g = extract_grammar(classes, built.start, expansion_depthing=e)
            except BaseException:  # noqa
                rec.count("extract_failed")
                continue
            mn = g.get_min_tree_depth()
            if mn >= 1000000:
                rec.count("unproductive_grammar")
                continue
            rec.count("sibling_grammars_run")
            model = refmodel.Model(classes, built.start, expansion=e)
            sub = dict(case, desc=dict(case["desc"], name=f"{case['desc']['name']}#{'ABA'[k]}:{case['variant']}", expansion=e))
            _run(sub, rec, built, g, model, mn)
    finally:
        built.dispose()


def run_case(case, rec):
    if case.get("kind") == "siblings":
        return run_siblings(case, rec)
    built = grammars.materialise(case["desc"])
    try:
        try:
            g = grammars.extract(built)
        except BaseException as e:  # noqa
            rec.count("extract_failed")
            return
        model = refmodel.Model(built.classes, built.start, expansion=bool(case["desc"].get("expansion")))
        mn = g.get_min_tree_depth()
        if mn >= 1000000:
            rec.count("unproductive_grammar")
            return
        if case.get("kind") == "deep":
            case = dict(case, offset=case["limit"] - mn)
        _run(case, rec, built, g, model, mn)
    finally:
        built.dispose()


def _make(case, g, d, src):
    """Builds the configuration under limit d. Returns (rep, create) where create() -> program."""
    from geneticengine.problems import SingleObjectiveProblem
    from geneticengine.representations.tree.operators import FullInitializer
    from geneticengine.representations.tree.treebased import TreeBasedRepresentation

    via, dec = case["via"], case["decider"]
    if via == "direct":
        rep = workload.make_repr("tree", g, dec, d, src)
        return rep, "tree"
    if via in ("ge", "sge"):
        rep = workload.make_repr(via, g, dec, d, src, gene_length=48)
        return rep, via
    if via == "dsge":
        return workload.make_repr("dsge", g, "own", d, src), "dsge"
    if via == "fullinit":
        # the representation's own decider is irrelevant: FullInitializer passes its FullDecider(max_depth+1)
        rep = TreeBasedRepresentation(g, workload.make_decider("maxdepth", src, g, max(d, g.get_min_tree_depth())))
        init = FullInitializer(max_depth=d)
        prob = SingleObjectiveProblem(lambda x: 0.0)

        class InitRep:
            """create_genotype through the initialiser, everything else the tree representation."""

            def __init__(self):
                self.rep = rep

            def create_genotype(self, random, **kw):
                return next(iter(init.initialize(prob, rep, random, 1))).genotype

            def genotype_to_phenotype(self, x):
                return x

            def mutate(self, random, x, **kw):
                return rep.mutate(random, x, decider=workload.make_decider("full", random, g, d))

            def crossover(self, random, a, b, **kw):
                return rep.crossover(random, a, b, decider=workload.make_decider("full", random, g, d))

        return InitRep(), "tree"
    if via in ("rampedinit", "pigrowinit"):
        from geneticengine.representations.tree.operators import PositionIndependentGrowInitializer, RampedHalfAndHalfInitializer

        # the representation's own decider allows MORE than the initialiser's limit: the initialiser's limit is what counts
        rep = TreeBasedRepresentation(g, workload.make_decider("maxdepth", src, g, max(d, g.get_min_tree_depth()) + 3))
        init = (RampedHalfAndHalfInitializer if via == "rampedinit" else PositionIndependentGrowInitializer)(max_depth=d)
        prob = SingleObjectiveProblem(lambda x: 0.0)

        class InitRep2:
            def __init__(self):
                self.rep = rep

            def create_genotype(self, random, **kw):
                out = [i.genotype for i in init.initialize(prob, rep, random, 2)]  # both halves of the initialiser
                return out[random.randint(0, len(out) - 1)]

            def genotype_to_phenotype(self, x):
                return x

            def mutate(self, random, x, **kw):
                return rep.mutate(random, x, decider=workload.make_decider("maxdepth", random, g, d))

            def crossover(self, random, a, b, **kw):
                return rep.crossover(random, a, b, decider=workload.make_decider("maxdepth", random, g, d))

        return InitRep2(), "tree"
    raise ValueError(via)


def _run(case, rec, built, g, model, mn):
    from geneticengine.representations.tree import initializations as I

    via, dec = case["via"], case["decider"]
    d = mn + case["offset"]
    frontier = case["offset"] == 0
    label = f"{via}:{dec}"
    src = workload.native(case["seed"])
    counter = anchors.CallCounter([I.create_node])

    # --- infeasible limit: must be rejected up-front with the library's error
    if frontier and mn >= 1 and via != "fullinit":  # FullInitializer(d) hands FullDecider(d+1): its own limit is only checked from d >= minimum
        rec.count("infeasible_probes")
        rec.count("evaluations")
        with counter:
            try:
                rep, kind = _make(case, g, mn - 1, src)
                geno = rep.create_genotype(src)
                rep.genotype_to_phenotype(geno)
                rec.violation(f"infeasible-limit-accepted:{label}", {"grammar": case["desc"]["name"], "min": mn, "limit": mn - 1})
            except core.CaseTimeout:
                raise
            except BaseException as e:  # noqa
                if isinstance(e, KeyboardInterrupt):
                    raise
                if not core.is_library_error(e):
                    rec.violation(f"infeasible-limit-foreign-error:{label}:{_site(e)}", {"grammar": case["desc"]["name"], "min": mn, "limit": mn - 1, "error": core.short(e)})
                elif counter.total() > 0:
                    rec.violation(f"infeasible-limit-rejected-midway:{label}", {"grammar": case["desc"]["name"], "min": mn, "limit": mn - 1, "create_node_entries": counter.total(), "error": core.short(e)})
                else:
                    rec.count("infeasible_rejected_upfront")
        counter.reset()

    # --- feasible limit: construction, creation, variation
    def fail(stage, e, entries):
        rec.violation(
            f"feasible-limit-failed:{label}:{stage}:{_site(e)}",
            {"grammar": case["desc"]["name"], "min": mn, "limit": d, "frontier": frontier, "create_node_entries_before_failure": entries, "error": core.short(e), "expansion": bool(case["desc"].get("expansion"))},
        )

    try:
        rep, kind = _make(case, g, d, src)
    except core.CaseTimeout:
        raise
    except BaseException as e:  # noqa
        fail("construct", e, 0)
        return
    pool = []

    def check(prog, stage):
        rec.count("programs_depth_checked")
        rec.count("evaluations")
        rec.count(f"via:{via}")
        if frontier:
            rec.count("frontier_programs")
        if stage != "create":
            rec.count("after_variation")
        if case.get("kind") == "deep":
            rec.count("deep_limit_programs")
        with core.oracle_room():  # the recursive folds of the ORACLE get stack room; the limit is put back before the next library call
            _judge(prog, stage)

    def _judge(prog, stage):
        dp = model.depth(prog)
        if dp >= 100:
            rec.count("programs_deeper_than_100")
        if dp > 200:  # the textual form is a recursive fold: summarise very deep programs instead
            text = f"<{type(prog).__name__} of depth {dp}>"
            if dp > d:
                rec.violation(f"depth-exceeded:{label}:{stage}", {"grammar": case["desc"]["name"], "limit": d, "depth": dp, "program": text})
            else:
                rec.distinct_add([case["desc"]["name"], label, d, stage, dp])
                if dp == d:
                    rec.count("programs_at_limit")
                rec.sample({"grammar": case["desc"]["name"], "config": label, "limit": d, "min": mn, "depth": dp, "stage": stage, "program": text}, cap=6)
            return
        if dp > d:
            rec.violation(f"depth-exceeded:{label}:{stage}", {"grammar": case["desc"]["name"], "limit": d, "depth": dp, "program": core.short(model.canon(prog), 400), "expansion": bool(case["desc"].get("expansion"))})
        else:
            rec.distinct_add([case["desc"]["name"], label, d, model.canon(prog)])
            if dp == d:
                rec.count("programs_at_limit")
            rec.sample({"grammar": case["desc"]["name"], "config": label, "limit": d, "min": mn, "depth": dp, "stage": stage, "program": model.canon(prog)[:200]})

    def attempt(stage, fn):
        with counter:
            counter.reset()
            try:
                out = fn()
                rec.count("create_node_entries_seen", counter.total())
                return out
            except core.CaseTimeout:
                raise
            except BaseException as e:  # noqa
                if isinstance(e, KeyboardInterrupt):
                    raise
                fail(stage, e, counter.total())
                return None

    rng = pyrandom.Random(case["seed"])
    for _ in range(case["n"]):
        geno = attempt("create", lambda: rep.create_genotype(src))
        if geno is None:
            continue
        prog = attempt("map", lambda: rep.genotype_to_phenotype(geno))
        if prog is None:
            continue
        pool.append(geno)
        check(prog, "create")
    if not pool:
        return
    for _ in range(case["n"]):
        if rng.random() < 0.5:
            a = rng.choice(pool)
            geno = attempt("mutate", lambda: rep.mutate(src, a))
            outs = [geno] if geno is not None else []
            stage = "mutate"
        else:
            a, b = rng.choice(pool), rng.choice(pool)
            res = attempt("crossover", lambda: rep.crossover(src, a, b))
            outs = list(res) if res is not None else []
            stage = "crossover"
        for o in outs:
            prog = attempt("map", lambda: rep.genotype_to_phenotype(o))
            if prog is None:
                continue
            pool.append(o)
            check(prog, stage)
