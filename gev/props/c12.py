"""C12 - the reported best individual really is the best one evaluated."""

from __future__ import annotations

import itertools
import os
import random as pyrandom

from gev import core, evo, workload

PROPERTY = "C12"
LEVEL = "exploration"
EXHAUSTIVE = True
TECHNIQUE = "runtime monitor: a recorder (extension API) captures every register(individual, is_best) call and the tracker's reported best after each evaluation; an offline checker replays the history against a 10-line sequential best-so-far model; histories = ALL fitness sequences over {0,1,2} up to length 7 fed to the real trackers, plus scripted landscapes driving the four real search algorithms; in GP runs with self-evaluating steps a delegating step records the members handed over, each evaluated member must have been presented to the tracker"
RULE = (
    "tracker cases = every value sequence over {0,1,2} of length 1..7 x {maximise, minimise} x {single, multi-objective tracker}; algorithm cases = "
    "(algorithm in GP/RS/HC/1+1, representation, direction, scripted value sequence with ties, plateaus and late improvements); "
    "distinct_nontrivial = distinct (value history, direction, tracker kind) histories containing at least one tie or one improvement after the first element"
)
ASSUMPTIONS = [
    "fitness values are finite (NaN has no total order and is out of scope)",
    "multi-objective trackers: an individual flagged is_best must attain the best aggregate seen so far and an unflagged one must be strictly worse (ties may be flagged)",
    "the scripted landscape returns the k-th value of the script on its k-th invocation (then cycles)",
]
PLAN = {
    "quick": {"shards": 8, "shard_timeout": 300, "case_timeout": 30, "maxlen": 6, "alg": 500, "max_case_timeouts": 3},
    "thorough": {"shards": 16, "shard_timeout": 3600, "case_timeout": 300, "maxlen": 8, "alg": 400000, "max_case_timeouts": 10},
}
THRESHOLDS = {
    "quick": {"gp_runs_whose_step_evaluates_its_offspring_itself": 15, "tracker_histories": 4000, "registrations_checked": 20000, "algorithm_runs": 150, "alg:gp": 20, "alg:rs": 20, "alg:hc": 20, "alg:opo": 20, "histories_with_ties": 1000, "minimising": 1500, "shared_evaluator_cases": 100, "shared_evaluator:parallel": 30, "presented_with_fitness": 100, "shared_evaluator_runs": 30, "searches_on_a_warm_tracker": 20, "second_search_calls": 20, "tracker_histories_tiny_values": 1000, "searches_with_a_user_written_tracker": 10, "tracker_histories_huge_values": 1000},
    "thorough": {"tracker_histories": 12000, "registrations_checked": 80000, "algorithm_runs": 3800},
}


def gen_cases(tier, seed):
    plan = PLAN[tier]
    # exhaustive tracker histories, batched by (length, direction, kind)
    for ln in range(1, plan["maxlen"] + 1):
        for minimize in (False, True):
            for multi in (False, True):
                yield {"kind": "tracker", "len": ln, "minimize": minimize, "multi": multi}
                if ln >= 2:  # the same exhaustive histories over values that differ far behind the decimal point / at a huge magnitude
                    yield {"kind": "tracker", "len": ln, "minimize": minimize, "multi": multi, "scale": "tiny"}
                    yield {"kind": "tracker", "len": ln, "minimize": minimize, "multi": multi, "scale": "huge"}
    rng = pyrandom.Random(f"c12-{seed}")
    for i in range(max(40, plan["alg"] // 4)):
        # individuals that reach the tracker already carrying a fitness (evaluated through the tracker's own evaluator by
        # a step), with either evaluator; and whole runs whose step evaluates after variation
        yield {"kind": "shared-evaluator", "evaluator": "parallel" if i % 3 == 0 else "sequential", "n": rng.randint(2, 9), "pre": rng.choice([0.3, 0.5, 0.8]), "minimize": rng.random() < 0.5, "multi": rng.random() < 0.25, "run": i % 2 == 1, "step": rng.choice(["mut-then-evaluate", "mut-then-elitism", "mut-then-tournament"]), "pop": rng.choice([3, 4, 6]), "budget": rng.randint(8, 30), "repr": rng.choice(["tree", "ge"]), "seed": rng.randrange(10**6)}
    for i in range(plan["alg"]):
        n = rng.randint(3, 30)
        style = rng.choice(["ties", "plateau-then-better", "random", "decreasing", "late-improvement"])
        if style == "ties":
            seq = [rng.choice([1, 1, 2]) for _ in range(n)]
        elif style == "plateau-then-better":
            seq = [1] * (n - 2) + [3, 1]
        elif style == "decreasing":
            seq = list(range(n, 0, -1))
        elif style == "late-improvement":
            seq = [2] + [0] * (n - 2) + [5]
        else:
            seq = [rng.randint(0, 6) for _ in range(n)]
        if rng.random() < 0.2:  # creeping improvements far behind the decimal point, or unit steps at a huge magnitude
            f = rng.choice([1e-10, 1e-10, 1.0])
            seq = [x * f + (1e10 if f == 1.0 else 0.0) for x in seq]
        yield {"kind": "alg", "alg": ["gp", "rs", "hc", "opo"][i % 4], "repr": rng.choice(["tree", "ge", "sge"]), "minimize": rng.random() < 0.5, "seq": seq, "budget": rng.randint(2, 40), "pop": rng.choice([2, 3, 5, 8]), "multi": rng.random() < 0.2, "warm": rng.choice([None, None, "pre-evaluated", "second-search"]), "own_tracker": rng.random() < 0.15, "seed": rng.randrange(10**6)}


def good(v, minimize):
    return -v if minimize else v


def check_history(events, bests, minimize, multi, rec, wit, value_of):
    """events: [(individual, is_best)]; bests[i]: reported best individuals after the i-th registration."""
    best_so_far = None
    for i, (ind, is_best) in enumerate(events):
        rec.count("registrations_checked")
        v = good(value_of(ind), minimize)
        first = best_so_far is None
        strictly = (not first) and v > best_so_far
        if not multi:
            if is_best != (first or strictly):
                kind = "first-not-flagged" if first else ("tie-or-worse-flagged" if is_best else "improvement-not-flagged")
                rec.violation(f"is_best:{kind}:{'min' if minimize else 'max'}", dict(wit, position=i, value=value_of(ind), best_before=None if first else (-best_so_far if minimize else best_so_far)))
        else:
            if is_best and not first and v < best_so_far:
                rec.violation(f"is_best-multi:worse-flagged:{'min' if minimize else 'max'}", dict(wit, position=i))
            if not is_best and (first or v >= best_so_far) and (first or strictly):
                rec.violation(f"is_best-multi:improvement-not-flagged:{'min' if minimize else 'max'}", dict(wit, position=i))
        best_so_far = v if first else max(best_so_far, v)
        if bests is not None:
            rb = bests[i]
            if not rb or any(b is None for b in rb):
                rec.violation("reported-best:none-after-evaluation", dict(wit, position=i))
            elif any(good(value_of(b), minimize) < best_so_far for b in rb):
                rec.violation(f"reported-best:worse-than-an-evaluated-individual:{'min' if minimize else 'max'}:{'multi' if multi else 'single'}", dict(wit, position=i, reported=[value_of(b) for b in rb], best_evaluated=(-best_so_far if minimize else best_so_far)))
    return best_so_far


def run_case(case, rec):
    if case["kind"] == "tracker":
        return run_tracker(case, rec)
    if case["kind"] == "shared-evaluator":
        return run_shared(case, rec)
    return run_alg(case, rec)


def setup(rec):
    import tempfile

    from gev.props import c13 as P13

    d = tempfile.mkdtemp(prefix="gev-c12-")
    P13.LOG_PATH["dir"] = d
    P13.LOG_PATH["path"] = os.path.join(d, "invocations.log")


def teardown(rec):
    import shutil

    from gev.props import c13 as P13

    shutil.rmtree(P13.LOG_PATH.get("dir", ""), ignore_errors=True)


def run_shared(case, rec):
    """The evaluator is shared between the tracker and the steps: an individual evaluated by a step reaches the tracker
    with a fitness already; it has been evaluated all the same and must count for the reported best."""
    from geneticengine.algorithms.gp.gp import GeneticProgramming
    from geneticengine.algorithms.gp.operators.combinators import ParallelStep, SequenceStep
    from geneticengine.algorithms.gp.operators.elitism import ElitismStep
    from geneticengine.algorithms.gp.operators.evaluation import EvaluateStep
    from geneticengine.algorithms.gp.operators.mutation import GenericMutationStep
    from geneticengine.algorithms.gp.operators.selection import TournamentSelection
    from geneticengine.evaluation.budget import AnyOf, EvaluationBudget
    from geneticengine.evaluation.parallel import ParallelEvaluator
    from geneticengine.evaluation.sequential import SequentialEvaluator
    from geneticengine.evaluation.tracker import MultiObjectiveProgressTracker, SingleObjectiveProgressTracker
    from geneticengine.problems import MultiObjectiveProblem, SingleObjectiveProblem

    from gev.props import c13 as P13

    if os.path.exists(P13.LOG_PATH["path"]):
        os.unlink(P13.LOG_PATH["path"])
    os.environ["GEV_C13_DELAY"] = "0"
    g, _ = evo.tiny()
    src = workload.native(case["seed"])
    rng = pyrandom.Random(case["seed"])
    rep = evo.make_rep(case["repr"], g, src)
    minimize, multi = case["minimize"], case["multi"]
    prob = MultiObjectiveProblem([minimize, minimize, minimize], P13.logged_fitness_multi) if multi else SingleObjectiveProblem(P13.logged_fitness, minimize=minimize)
    ev = ParallelEvaluator() if case["evaluator"] == "parallel" else SequentialEvaluator()
    R = evo.make_recorder_class()
    r = R()
    presented: list = []
    base = MultiObjectiveProgressTracker if multi else SingleObjectiveProgressTracker

    class PresentationLog(base):  # a tracker subclass (extension API) that notes what it is asked to evaluate
        def evaluate(self, individuals):
            individuals = list(individuals)
            presented.extend(individuals)
            return super().evaluate(individuals)

    tr = PresentationLog(prob, ev, recorders=[r])

    def value(ind):
        p = ind.get_phenotype()
        return sum(P13.pure_multi(p)) if multi else P13.pure_single(p)

    wit = {k: case[k] for k in ("evaluator", "minimize", "multi", "repr", "run", "step")}
    rec.count("shared_evaluator_cases")
    rec.count(f"shared_evaluator:{case['evaluator']}")
    rec.count("evaluations")
    try:
        if not case["run"]:
            inds = evo.individuals(rep, src, case["n"])
            best_so_far = None
            for ind in inds:
                if rng.random() < case["pre"]:
                    ev.evaluate(prob, [ind])  # what EvaluateStep / elitism / selection do with the shared evaluator
                    rec.count("presented_with_fitness")
                tr.evaluate([ind])
                v = good(value(ind), minimize)
                best_so_far = v if best_so_far is None else max(best_so_far, v)
                reported = list(tr.get_best_individuals()) if multi else [tr.get_best_individual()]
                if not reported or any(b is None for b in reported):
                    rec.violation(f"reported-best:none-after-evaluation:{case['evaluator']}", wit)
                    return
                if any(good(value(b), minimize) < best_so_far for b in reported):
                    rec.violation(f"reported-best:worse-than-an-evaluated-individual:{'min' if minimize else 'max'}:{'multi' if multi else 'single'}:shared-evaluator", dict(wit, reported=[value(b) for b in reported], best_evaluated=(-best_so_far if minimize else best_so_far)))
                    return
            if len(r.events) != len(inds):
                rec.violation(f"recorder:evaluated-individual-never-registered:{case['evaluator']}", dict(wit, presented=len(inds), registered=len(r.events)))
            rec.distinct_add(["shared", wit, [value(i) for i in inds]])
            return
        step = {
            "mut-then-evaluate": SequenceStep(TournamentSelection(2), GenericMutationStep(1.0), EvaluateStep()),
            "mut-then-elitism": SequenceStep(GenericMutationStep(1.0), ElitismStep()),
            "mut-then-tournament": ParallelStep([ElitismStep(), SequenceStep(GenericMutationStep(1.0), TournamentSelection(2, with_replacement=True))], weights=[1, 3]),
        }[case["step"]]
        budget = AnyOf(EvaluationBudget(case["budget"]), evo.check_count_budget(case["budget"] + 40))
        gp = GeneticProgramming(prob, budget, rep, src, tracker=tr, population_size=case["pop"], step=step)
        res = gp.search()
        # every individual the tracker was asked to evaluate (a step may evaluate more through the shared evaluator and
        # discard them before they reach a Population: those never enter the search's record and are not demanded here)
        vals = [value(i) for i in presented]
        if not vals or res is None:
            return
        best = max(good(v, minimize) for v in vals)
        rv = good(value(res), minimize)
        rec.count("shared_evaluator_runs")
        if rv < best:
            rec.violation(f"search:returned-worse-than-an-evaluated-individual:{'min' if minimize else 'max'}:shared-evaluator", dict(wit, returned=value(res), best_evaluated=(-best if minimize else best), invocations=len(vals)))
        rec.distinct_add(["shared-run", wit, len(vals), rv])
        rec.sample(dict(wit, invocations=len(vals), returned=value(res)), cap=3)
    except core.CaseTimeout:
        raise
    except BaseException as e:  # noqa
        rec.violation(f"search:raises:{type(e).__name__}@{core.exc_site(e)}", dict(wit, error=core.short(e)))


def run_tracker(case, rec):
    from geneticengine.evaluation.sequential import SequentialEvaluator
    from geneticengine.evaluation.tracker import MultiObjectiveProgressTracker, SingleObjectiveProgressTracker
    from geneticengine.problems import MultiObjectiveProblem, SingleObjectiveProblem

    g, _ = evo.tiny()
    src = workload.native(7)
    rep = evo.make_rep("tree", g, src)
    pool = evo.individuals(rep, src, case["len"])
    R = evo.make_recorder_class()
    minimize, multi = case["minimize"], case["multi"]
    scale = case.get("scale")
    pool_values = {None: [0, 1, 2], "tiny": [0.0, 3e-10, 8e-10], "huge": [1e10, 1e10 + 1, 1e10 + 2]}[scale]
    if scale:
        rec.count(f"tracker_histories_{scale}_values", 3 ** case["len"])
    for seq in itertools.product(pool_values, repeat=case["len"]):
        from geneticengine.solutions.individual import Individual

        inds = [Individual(p.genotype, rep) for p in pool]
        fit = evo.TableFitness()
        vals = {}
        for ind, v in zip(inds, seq):
            # multi: two components whose direction-aware sum orders like v
            fit.prescribe(ind.get_phenotype(), [float(v), 0.0] if multi else float(v))
            vals[id(ind)] = v
        # phenotype objects are shared between the copies of one pool member: prescribe per call instead
        table = {}

        def f(p, table=table):
            return table[id(p)]

        fit2 = f
        r = R()
        if multi:
            prob = MultiObjectiveProblem([minimize, minimize], fit2)
            tr = MultiObjectiveProgressTracker(prob, SequentialEvaluator(), recorders=[r])
        else:
            prob = SingleObjectiveProblem(fit2, minimize=minimize)
            tr = SingleObjectiveProgressTracker(prob, SequentialEvaluator(), recorders=[r])
        bests = []
        ok = True
        for ind, v in zip(inds, seq):
            table.clear()
            table[id(ind.get_phenotype())] = [float(v), 0.0] if multi else float(v)
            try:
                tr.evaluate([ind])
                bests.append(list(tr.get_best_individuals()) if multi else [tr.get_best_individual()])
            except core.CaseTimeout:
                raise
            except BaseException as e:  # noqa
                rec.violation(f"tracker:raises:{type(e).__name__}@{core.exc_site(e)}", {"sequence": list(seq), "error": core.short(e)})
                ok = False
                break
        if not ok:
            continue
        rec.count("tracker_histories")
        rec.count("evaluations")
        if minimize:
            rec.count("minimising")
        if len(set(seq)) < len(seq):
            rec.count("histories_with_ties")
        wit = {"sequence": list(seq), "minimize": minimize, "tracker": "multi" if multi else "single"}
        if len(r.events) != len(seq):
            rec.violation("recorder:registration-count", dict(wit, registrations=len(r.events)))
            continue
        check_history([(e[0], e[1]) for e in r.events], bests, minimize, multi, rec, wit, lambda i: vals[id(i)])
        if len(seq) > 1 and (len(set(seq)) < len(seq) or any(b > a for a, b in zip(seq, seq[1:]))):
            rec.distinct_add([seq, minimize, multi])
    rec.sample({"exhaustive": f"all {3 ** case['len']} sequences over {{0,1,2}} of length {case['len']}", "minimize": minimize, "tracker": "multi" if multi else "single"}, cap=3)


def run_alg(case, rec):
    from geneticengine.algorithms.gp.gp import GeneticProgramming
    from geneticengine.algorithms.hill_climbing import HC
    from geneticengine.algorithms.one_plus_one import OnePlusOne
    from geneticengine.algorithms.random_search import RandomSearch
    from geneticengine.evaluation.budget import EvaluationBudget
    from geneticengine.evaluation.sequential import SequentialEvaluator
    from geneticengine.evaluation.tracker import MultiObjectiveProgressTracker, SingleObjectiveProgressTracker
    from geneticengine.problems import MultiObjectiveProblem, SingleObjectiveProblem

    g, _ = evo.tiny()
    src = workload.native(case["seed"])
    rep = evo.make_rep(case["repr"], g, src)
    seq = case["seq"]
    calls = [0]
    given: dict = {}  # id(program) -> value handed out for it
    keep = []
    multi = case["multi"]  # every algorithm accepts a multi-objective problem
    minimize = case["minimize"]

    def f(p):
        v = float(seq[calls[0] % len(seq)])
        calls[0] += 1
        given[id(p)] = v
        keep.append(p)
        return [v, 0.0] if multi else v

    R = evo.make_recorder_class()
    r = R()
    if multi:
        prob = MultiObjectiveProblem([minimize, minimize], f, aggregate_fitness=lambda comps: sum(-c if minimize else c for c in comps))
        tr = MultiObjectiveProgressTracker(prob, SequentialEvaluator(), recorders=[r])
    else:
        prob = SingleObjectiveProblem(f, minimize=minimize)
        tr = SingleObjectiveProgressTracker(prob, SequentialEvaluator(), recorders=[r])
    stock = tr
    if case.get("own_tracker"):
        # a tracker written against the public base class (ProgressTracker), here a thin wrapper around a stock one
        from geneticengine.evaluation.tracker import ProgressTracker

        class OwnTracker(ProgressTracker):
            def __init__(self, inner):
                super().__init__(inner.problem, inner.evaluator, recorders=[])
                self.inner = inner

            def evaluate(self, individuals):
                return self.inner.evaluate(individuals)

            def get_best_individual(self):
                return self.inner.get_best_individual()

        tr = OwnTracker(stock)
        rec.count("searches_with_a_user_written_tracker")
    b = EvaluationBudget(case["budget"])
    yielded: list = []
    gp_step = None
    if case["alg"] == "gp" and case["seed"] % 3 == 0:
        # a step that evaluates its offspring itself (an evaluate step / a selection placed after variation), watched by a
        # delegating step: whatever the step hands over as a member of the generation and has been evaluated is an
        # individual "evaluated so far" that the tracker has to know
        from geneticengine.algorithms.gp.operators.combinators import SequenceStep
        from geneticengine.algorithms.gp.operators.evaluation import EvaluateStep
        from geneticengine.algorithms.gp.operators.mutation import GenericMutationStep
        from geneticengine.algorithms.gp.operators.selection import TournamentSelection
        from geneticengine.algorithms.gp.structure import GeneticStep

        inner_step = SequenceStep(GenericMutationStep(1.0), EvaluateStep()) if case["seed"] % 2 == 0 else SequenceStep(GenericMutationStep(1.0), TournamentSelection(2))

        class Watch(GeneticStep):
            def iterate(self, problem, evaluator, representation, random, population, target_size, generation):
                for ind in inner_step.apply(problem, evaluator, representation, random, population, target_size, generation):
                    yielded.append(ind)
                    yield ind

        gp_step = Watch()
        rec.count("gp_runs_whose_step_evaluates_its_offspring_itself")
    alg = {
        "gp": lambda: GeneticProgramming(prob, b, rep, src, tracker=tr, population_size=case["pop"], step=gp_step),
        "rs": lambda: RandomSearch(prob, b, rep, src, tracker=tr),
        "hc": lambda: HC(prob, b, rep, src, tracker=tr, number_of_mutations=case["pop"]),
        "opo": lambda: OnePlusOne(prob, b, rep, src, tracker=tr),
    }[case["alg"]]()
    warm = case.get("warm")
    wit = {"alg": case["alg"], "repr": case["repr"], "minimize": minimize, "script": seq[:12], "budget": case["budget"], "multi": multi, "tracker_history_before_search": warm}
    try:
        if warm == "pre-evaluated":  # a tracker that already knows individuals (warm start, tracker shared with an earlier search)
            from geneticengine.solutions.individual import Individual

            k = 1 + case["seed"] % 3
            tr.evaluate([Individual(rep.create_genotype(src), rep) for _ in range(k)])
            rec.count("searches_on_a_warm_tracker")
        res = alg.search()
        if warm == "second-search":  # asking the same algorithm object again
            res = alg.search()
            rec.count("second_search_calls")
    except core.CaseTimeout:
        raise
    except BaseException as e:  # noqa
        rec.violation(f"search:raises:{type(e).__name__}@{core.exc_site(e)}", dict(wit, error=core.short(e)))
        return
    rec.count("algorithm_runs")
    rec.count(f"alg:{case['alg']}")
    rec.count("evaluations")

    def value_of(ind):
        return given.get(id(ind.get_phenotype()))

    # registrations of individuals that were evaluated earlier (elitism survivors) repeat a known value: the model
    # treats every registration as an observation of that individual's value
    evs = [(e[0], e[1]) for e in r.events if value_of(e[0]) is not None]
    presented = {id(e[0]) for e in r.events}
    for ind in yielded:
        if ind.has_fitness(prob) and id(ind) not in presented:
            rec.violation("generation-member-evaluated-but-never-presented-to-the-tracker", dict(wit, value=value_of(ind), members_handed_over=len(yielded), presented=len(presented)))
            break
    best = check_history(evs, None, minimize, multi, rec, wit, value_of)
    if res is None:
        rec.violation("search:returns-none", wit)
        return
    rv = value_of(res)
    if rv is None or best is None:
        return
    reported = stock.get_best_individuals() if multi else [stock.get_best_individual()]
    if all(res is not x for x in reported):
        rec.violation("search:returned-individual-is-not-the-tracker-best", dict(wit, returned=rv))
    if good(rv, minimize) < best:
        rec.violation(f"search:returned-worse-than-an-evaluated-individual:{'min' if minimize else 'max'}", dict(wit, returned=rv, best_evaluated=(-best if minimize else best)))
    rec.distinct_add([case["alg"], seq, minimize, case["budget"], case["pop"]])
    rec.sample(dict(wit, returned=rv, evaluations=calls[0]), cap=4)


def _has_repeats(events):
    seen = set()
    for e in events:
        if id(e[0]) in seen:
            return True
        seen.add(id(e[0]))
    return False


def _best_only(evs, minimize, value_of):
    vs = [good(value_of(i), minimize) for i, _ in evs]
    return max(vs) if vs else None
