"""C06 - crossover recombines parental material; point mutation is local."""

from __future__ import annotations

import random as pyrandom

from gev import core, grammars, refmodel, stream, workload

PROPERTY = "C06"
LEVEL = "exploration"
TECHNIQUE = "runtime monitor: structural comparison of every crossover / mutate return value with its arguments (locus-wise gene origin for GE, stack, SGE, dSGE; single-subtree-replacement search for trees), on the direct API and inside the real GenericCrossoverStep / GenericMutationStep through a recording representation proxy"
RULE = (
    "cases = (generated grammar, representation, decider, gene length, seed, op sequence); every crossover and mutation observed at the "
    "Representation API is checked against its parents; step cases run the real crossover/mutation steps over a population; "
    "distinct_nontrivial = distinct (parents, child) triples in which the child differs from both parents"
)
ASSUMPTIONS = [
    "tree crossover: exists a position p such that child = parent1[p <- s] with s structurally equal to some sub-value of parent2 that is well-typed for the declared type at p (identical child = trivial case)",
    "dSGE genotypes are mapped before they are compared (on-demand extension is a permitted effect of mapping, not of the operators)",
    "tree mutation is not constrained by the statement (only linear/structured mutation is)",
]
PLAN = {
    "quick": {"shards": 8, "shard_timeout": 400, "case_timeout": 25, "grammars": 160, "max_case_timeouts": 3},
    "thorough": {"shards": 16, "shard_timeout": 3600, "case_timeout": 40, "grammars": 6000, "max_case_timeouts": 160},
}
THRESHOLDS = {
    "quick": {"crossover:ge": 100, "crossover:sge": 100, "crossover:dsge": 100, "crossover:stack": 50, "crossover:tree": 200, "mutate:ge": 100, "mutate:sge": 100, "mutate:dsge": 100, "mutate:stack": 50, "tree_concrete_start_crossovers": 20, "step_crossovers": 100, "step_mutations": 100, "child_differs_from_both": 200, "lineages": 10, "lineage_crossovers_of_offspring": 300},
    "thorough": {"crossover:ge": 2000, "crossover:sge": 2000, "crossover:dsge": 2000, "crossover:stack": 800, "crossover:tree": 4000, "tree_concrete_start_crossovers": 300, "step_crossovers": 2000},
}


def gen_cases(tier, seed):
    rng = pyrandom.Random(f"c06-{seed}")
    n = PLAN[tier]["grammars"]
    descs = grammars.family(seed, n, "general")
    for desc in descs:
        for rk, dk in workload.config_grid(rng):
            yield {
                "kind": "ops",
                "desc": desc,
                "repr": rk,
                "decider": dk,
                "extra_depth": rng.choice([1, 2, 3]),
                "seed": rng.randrange(10**6),
                "nops": rng.randint(16, 30),
                # short stack genomes make the stack mapper spin (it only stops on failures); that is not C06's subject
                "gene_length": rng.choice([1, 2, 7, 48, 64, 256, 300]) if rk != "stack" else rng.choice([64, 128, 256, 300]),
            }
        if desc["name"] in ("fx_blocks", "fx_concrete_start", "fx_nested", "fx_layers") or (desc["name"].startswith("general") and rng.random() < 0.15):
            # lineages: several generations of pairwise crossover, the children of one generation being the parents of
            # the next (donor indexes built for one tree are consulted generations later)
            for _ in range(3 if desc["name"].startswith("fx_") else 1):
                yield {"kind": "lineage", "desc": desc, "repr": "tree", "decider": rng.choice(["maxdepth", "pigrow"]), "extra_depth": rng.choice([2, 3, 4]), "seed": rng.randrange(10**6), "gene_length": 64, "pop": rng.choice([8, 12]), "gens": rng.choice([5, 8])}
        yield {"kind": "step", "desc": desc, "repr": rng.choice(workload.REPRS), "decider": rng.choice(["maxdepth", "pigrow"]), "extra_depth": 2, "seed": rng.randrange(10**6), "gene_length": rng.choice([64, 256]), "pop": rng.choice([2, 3, 6, 9])}


# ------------------------------------------------------------------------------------------ oracles


def linear_genes(kind, geno):
    """Genotype as {key: list of genes} (one key for linear representations)."""
    if kind in ("ge", "stack"):
        return {"": list(geno.dna)}
    return {k: list(v) for k, v in geno.dna.items()}


def _s(g):
    return sorted((str(k), v) for k, v in g.items())


def check_linear_crossover(kind, parents, children, rec, wit):
    p1, p2 = (linear_genes(kind, p) for p in parents)
    for ci, c in enumerate(children):
        cg = linear_genes(kind, c)
        foreign_keys = [k for k in cg if k not in p1 and k not in p2]
        if foreign_keys:
            rec.violation(f"crossover:{kind}:foreign-key", dict(wit, child=ci, keys=[str(k) for k in foreign_keys][:4]))
            continue
        for k, genes in cg.items():
            a, b = p1.get(k), p2.get(k)
            lens = {len(x) if x is not None else 0 for x in (a, b)}  # a key one parent lacks is an empty gene list there
            if len(genes) not in lens:
                rec.violation(f"crossover:{kind}:length", dict(wit, child=ci, key=str(k), child_len=len(genes), parent_lens=sorted(lens)))
                break
            bad = [i for i, gval in enumerate(genes) if not ((a is not None and i < len(a) and a[i] == gval) or (b is not None and i < len(b) and b[i] == gval))]
            if bad:
                rec.violation(f"crossover:{kind}:foreign-gene", dict(wit, child=ci, key=str(k), loci=bad[:5], child_gene=genes[bad[0]], p1_gene=(a[bad[0]] if a and bad[0] < len(a) else None), p2_gene=(b[bad[0]] if b and bad[0] < len(b) else None)))
                break
        if cg != p1 and cg != p2:
            rec.count("child_differs_from_both")
            rec.distinct_add([_s(p1), _s(p2), _s(cg)])


def check_linear_mutation(kind, parent, child, rec, wit):
    p, c = linear_genes(kind, parent), linear_genes(kind, child)
    if list(map(str, p.keys())) != list(map(str, c.keys())) and set(map(str, p.keys())) != set(map(str, c.keys())):
        rec.violation(f"mutate:{kind}:shape-keys", dict(wit, parent_keys=[str(k) for k in p][:6], child_keys=[str(k) for k in c][:6]))
        return
    diffs = 0
    for k in p:
        ck = c.get(k)
        if ck is None:
            ck = next((v for kk, v in c.items() if str(kk) == str(k)), None)
        if ck is None or len(ck) != len(p[k]):
            rec.violation(f"mutate:{kind}:length", dict(wit, key=str(k), parent_len=len(p[k]), child_len=None if ck is None else len(ck)))
            return
        diffs += sum(1 for x, y in zip(p[k], ck) if x != y)
    if diffs > 1:
        rec.violation(f"mutate:{kind}:more-than-one-gene", dict(wit, changed=diffs))
    elif diffs == 1:
        rec.count("child_differs_from_both")
        rec.distinct_add([_s(p), _s(c)])


def subvalues(model, v, out, d=0):
    """Canonical texts of every sub-value of v (nodes, lists, tuples, base values)."""
    if d > 3000:
        return
    out.add(model.canon(v))
    if isinstance(v, (list, tuple)):
        for x in v:
            subvalues(model, x, out, d + 1)
    elif type(v) in model.registered:
        for x in model.children(v):
            subvalues(model, x, out, d + 1)


def is_single_replacement(model, p1, c, declared, donors, d=0):
    """True iff c == p1[pi <- s] for some position pi with s in donors and well-typed for the declared type at pi."""
    if d > 3000:
        return False
    if model.canon(p1) == model.canon(c):
        return True
    # pi = this position
    if model.canon(c) in donors and not model.welltyped(c, declared):
        return True
    # pi deeper: same constructor, exactly one differing child
    k = refmodel.kind(declared)
    while k[0] == "ann":
        declared = k[1]
        k = refmodel.kind(declared)
    if isinstance(p1, list) and isinstance(c, list) and len(p1) == len(c) and k[0] == "list":
        diff = [i for i, (a, b) in enumerate(zip(p1, c)) if model.canon(a) != model.canon(b)]
        return len(diff) == 1 and is_single_replacement(model, p1[diff[0]], c[diff[0]], k[1], donors, d + 1)
    if type(p1) is tuple and type(c) is tuple and len(p1) == len(c) and k[0] == "tuple":
        diff = [i for i, (a, b) in enumerate(zip(p1, c)) if model.canon(a) != model.canon(b)]
        return len(diff) == 1 and is_single_replacement(model, p1[diff[0]], c[diff[0]], k[1][diff[0]], donors, d + 1)
    if type(p1) is type(c) and type(p1) in model.registered and not refmodel.is_abs(type(p1)):
        fa, fb = model.field_values(p1, type(p1)), model.field_values(c, type(c))
        diff = [i for i, (a, b) in enumerate(zip(fa, fb)) if model.canon(a[2]) != model.canon(b[2])]
        return len(diff) == 1 and is_single_replacement(model, fa[diff[0]][2], fb[diff[0]][2], fa[diff[0]][1], donors, d + 1)
    return False


def check_tree_crossover(ctx, parents, children, rec, wit):
    model, start = ctx.model, ctx.built.start
    p1, p2 = parents
    kind_start = "abstract-start" if refmodel.is_abs(start) else "concrete-start"
    if kind_start == "concrete-start":
        rec.count("tree_concrete_start_crossovers")
    for ci, (base, other, c) in enumerate(((p1, p2, children[0]), (p2, p1, children[1]))):
        donors: set = set()
        subvalues(model, other, donors)
        if not is_single_replacement(model, base, c, start, donors):
            own: set = set()
            subvalues(model, base, own)
            shared = model.canon(c) in own
            rec.violation(
                f"crossover:tree:no-parental-material:{kind_start}",
                dict(wit, child=ci, base=core.short(model.canon(base), 200), other=core.short(model.canon(other), 200), offspring=core.short(model.canon(c), 200), offspring_is_subtree_of_base=shared),
            )
        elif model.canon(c) != model.canon(base):
            rec.count("child_differs_from_both")
            rec.distinct_add([model.canon(base), model.canon(other), model.canon(c)])


def judge(ctx, kind, op, inputs, outputs, rec, where):
    wit = {"grammar": ctx.case["desc"]["name"], "repr": kind, "where": where}
    rec.count(f"{op}:{kind}")
    rec.count("evaluations")
    if op == "crossover":
        if len(outputs) != 2:
            rec.violation(f"crossover:{kind}:arity", dict(wit, returned=len(outputs)))
            return
        if kind == "tree":
            check_tree_crossover(ctx, inputs, outputs, rec, wit)
        else:
            check_linear_crossover(kind, inputs, outputs, rec, wit)
    elif op == "mutate" and kind != "tree":
        check_linear_mutation(kind, inputs[0], outputs[0], rec, wit)


def run_case(case, rec):
    ctx = stream.open_case(case, rec)
    if ctx is None:
        return
    try:
        if case["kind"] == "ops":
            run_ops(ctx, case, rec)
        elif case["kind"] == "lineage":
            run_lineage(ctx, case, rec)
        else:
            run_step(ctx, case, rec)
    finally:
        ctx.built.dispose()


def _rep(ctx, case, src):
    dk = case["decider"] if case["decider"] != "own" else "maxdepth"
    return workload.make_repr(case["repr"], ctx.grammar, dk, ctx.max_depth, src, gene_length=case["gene_length"]) if case["repr"] != "stack" else _stack(ctx, case)


def _stack(ctx, case):
    from geneticengine.representations.stackgggp import StackBasedGGGPRepresentation

    return StackBasedGGGPRepresentation(ctx.grammar, gene_length=case["gene_length"])


def run_ops(ctx, case, rec):
    src = workload.native(case["seed"])
    try:
        rep = _rep(ctx, case, src)
    except BaseException:  # noqa
        rec.count("config_rejected")
        return

    def on_event(ev):
        if ev.exc is not None:
            rec.count("op_raised")
            return
        if ev.op in ("crossover", "mutate"):
            judge(ctx, ev.repr_kind, ev.op, ev.inputs, ev.outputs, rec, "api")

    sess = workload.Session(case["repr"], rep, src, on_event)
    rng = pyrandom.Random(case["seed"])
    # dSGE: map every genotype right after creation so that on-demand extension is over before comparing
    ops = workload.gen_ops(rng, case["nops"], map_after_create=True)
    sess.run_ops(ops)
    rec.sample({"grammar": case["desc"]["name"], "repr": case["repr"], "gene_length": case["gene_length"], "events": sess.n})


def run_lineage(ctx, case, rec):
    src = workload.native(case["seed"])
    try:
        rep = _rep(ctx, case, src)
        pop = [rep.create_genotype(src) for _ in range(case["pop"])]
    except core.CaseTimeout:
        raise
    except BaseException:  # noqa
        rec.count("config_rejected")
        return
    rec.count("lineages")
    for gen in range(case["gens"]):
        nxt = []
        for k in range(0, len(pop) - 1, 2):
            a, b = pop[k], pop[k + 1]
            try:
                c1, c2 = rep.crossover(src, a, b)
            except core.CaseTimeout:
                raise
            except BaseException:  # noqa
                rec.count("op_raised")
                nxt += [a, b]
                continue
            rec.count("lineage_crossovers")
            if gen >= 1:
                rec.count("lineage_crossovers_of_offspring")
            judge(ctx, "tree", "crossover", [a, b], [c1, c2], rec, f"lineage:gen{min(gen, 1)}+")
            nxt += [c1, c2]
        pyrandom.Random(case["seed"] + gen).shuffle(nxt)
        pop = nxt
    rec.sample({"grammar": case["desc"]["name"], "lineage": True, "generations": case["gens"], "population": case["pop"]}, cap=2)


class RecordingRep:
    """Proxy representation (the library's extension API): forwards to the real one and logs operator calls."""

    def __init__(self, rep, kind, log):
        self._rep, self._kind, self._log = rep, kind, log
        self.grammar = getattr(rep, "grammar", None)

    def create_genotype(self, random, **kw):
        return self._rep.create_genotype(random, **kw)

    def genotype_to_phenotype(self, g):
        return self._rep.genotype_to_phenotype(g)

    def mutate(self, random, g, **kw):
        out = self._rep.mutate(random, g, **kw)
        self._log.append(("mutate", [g], [out]))
        return out

    def crossover(self, random, a, b, **kw):
        out = self._rep.crossover(random, a, b, **kw)
        self._log.append(("crossover", [a, b], list(out)))
        return out


def run_step(ctx, case, rec):
    from geneticengine.algorithms.gp.operators.crossover import GenericCrossoverStep
    from geneticengine.algorithms.gp.operators.mutation import GenericMutationStep
    from geneticengine.evaluation.sequential import SequentialEvaluator
    from geneticengine.problems import SingleObjectiveProblem
    from geneticengine.representations.api import RepresentationWithCrossover, RepresentationWithMutation
    from geneticengine.solutions.individual import Individual

    src = workload.native(case["seed"])
    try:
        real = _rep(ctx, case, src)
    except BaseException:  # noqa
        rec.count("config_rejected")
        return
    log: list = []

    class Proxy(RecordingRep, RepresentationWithMutation, RepresentationWithCrossover):
        pass

    rep = Proxy(real, case["repr"], log)
    prob = SingleObjectiveProblem(lambda p: 0.0)
    ev = SequentialEvaluator()
    pop = []
    for _ in range(case["pop"] + 1):
        try:
            g = real.create_genotype(src)
            real.genotype_to_phenotype(g)
            pop.append(Individual(g, rep))
        except BaseException:  # noqa
            rec.count("op_raised")
    if len(pop) < 2:
        return
    for step, name in ((GenericCrossoverStep(1.0), "step_crossovers"), (GenericMutationStep(1.0), "step_mutations")):
        del log[:]
        try:
            out = list(step.apply(prob, ev, rep, src, list(pop), case["pop"], 1))
        except core.CaseTimeout:
            raise
        except BaseException:  # noqa
            rec.count("op_raised")
            continue
        given = {id(i.genotype) for i in pop}
        produced = {id(o) for _, _, outs in log for o in outs}
        for ind in out:
            if id(ind.genotype) not in given and id(ind.genotype) not in produced:
                rec.violation(f"step:{type(step).__name__}:offspring-not-from-operator", {"grammar": case["desc"]["name"], "repr": case["repr"]})
        for op, ins, outs in log:
            rec.count(name)
            judge(ctx, case["repr"], op, ins, outs, rec, type(step).__name__)
