"""C19 - production weights are normalised per non-terminal, stable and respected."""

from __future__ import annotations

import random as pyrandom

from gev import core, grammars, refmodel, workload

core.setup_paths()

PROPERTY = "C19"
LEVEL = "exploration"
TECHNIQUE = "runtime monitor: post-condition on Grammar.get_weights() after each of 1-4 extractions of a fresh weighted hierarchy (per-rule normalisation, declared ratios, idempotence) and a post-condition on every choice made by the weight-aware choosers (ProgressivelyTerminalDecider, stack mapper's weighted type choice) under boundary-probing random sources that return the extremes of every draw"
RULE = (
    "cases = (generated hierarchy with a random subset of productions weighted incl. zeros and nested abstract types, number of repeated "
    "extractions 1..4, probing policy for the random draws); distinct_nontrivial = distinct (declared weight vector of a rule, normalised vector) pairs "
    "plus distinct (offered weights, chosen index) observations"
)
ASSUMPTIONS = [
    "unweighted productions count as weight one; no rule has all its productions at weight zero",
    "weights are declared on productions of an abstract type (never on a standalone start symbol)",
    "a chooser is judged at its choice points only: the offered alternatives are those it received",
]
PLAN = {
    "quick": {"shards": 8, "shard_timeout": 300, "case_timeout": 25, "grammars": 800, "max_case_timeouts": 3},
    "thorough": {"shards": 16, "shard_timeout": 3600, "case_timeout": 40, "grammars": 40000, "max_case_timeouts": 20},
}
THRESHOLDS = {
    "quick": {"rules_checked": 1500, "re_extractions": 600, "rules_with_zero_weight": 200, "nested_rules": 100, "progressive_choices": 3000, "progressive_choices_with_zero_offer": 300, "stack_weighted_choices": 3000, "stack_zero_offers": 500},
    "thorough": {"rules_checked": 40000, "re_extractions": 15000, "progressive_choices": 80000, "stack_weighted_choices": 80000},
}


def gen_cases(tier, seed):
    rng = pyrandom.Random(f"c19-{seed}")
    for i in range(PLAN[tier]["grammars"]):
        yield {"i": i, "seed": seed, "extractions": 1 + i % 4, "policy": rng.choice(["lo", "hi", "mid", "random", "lo", "hi"]), "s": rng.randrange(10**6)}


class ProbeSource(workload.NativeRandomSource):
    """Answers each randint with an extreme of the requested range (policy), so boundary draws are certain."""

    def __init__(self, seed, policy):
        super().__init__(seed)
        self.policy = policy

    def randint(self, min, max):
        pol = self.policy if self.policy != "random" else self.random.choice(["lo", "hi", "mid", "uniform", "hi", "lo"])
        if pol == "lo":
            return min
        if pol == "hi":
            return max
        if pol == "mid":
            return (min + max) // 2
        return self.random.randint(min, max)


def declared(desc):
    d = {p["name"]: (p.get("weight") if p.get("weight") is not None else 1) for p in desc["prods"]}
    d.update({a["name"]: a["weight"] for a in desc["abstracts"] if a.get("weight") is not None})
    return d


def check_weights(desc, built, g, model, rec, nth, first, after_sibling=False):
    w = g.get_weights()
    decl = declared(desc)
    out = {}
    for a in model.registered:
        if not refmodel.is_abs(a):
            continue
        prods = model.productions(a)
        if desc.get("rules_from_library"):
            # classes with several abstract bases: which rule such a class belongs to is the library's decision (its
            # first base); the weights are judged on the rules the grammar actually has
            prods = list(g.alternatives.get(a, []))
        if not prods:
            continue
        rec.count("rules_checked")
        rec.count("evaluations")
        d = [decl.get(p.__name__, 1) for p in prods]
        got = [w.get(p) for p in prods]
        wit = {"grammar": desc["name"], "rule": a.__name__, "productions": [p.__name__ for p in prods], "declared": d, "weights": got, "extraction": nth}
        if any(x == 0 for x in d):
            rec.count("rules_with_zero_weight")
        if any(refmodel.is_abs(p) for p in prods):
            rec.count("nested_rules")
        if any(x is None for x in got):
            rec.violation("weights:production-without-weight", wit)
            continue
        if any(x < 0 for x in got):
            rec.violation("weights:negative", wit)
        tot = sum(d)
        if tot == 0:
            continue
        if abs(sum(got) - 1.0) > 1e-9:
            rec.violation(f"weights:not-normalised-per-rule:{'first' if nth == 1 else ('after-a-sibling-grammar' if after_sibling else 'repeat')}", wit)
        elif any(abs(x - dd / tot) > 1e-9 for x, dd in zip(got, d)):
            rec.violation(f"weights:ratios-not-preserved:{'first' if nth == 1 else ('after-a-sibling-grammar' if after_sibling else 'repeat')}", wit)
        else:
            rec.distinct_add([d, [round(x, 12) for x in got]])
        out[a.__name__] = got
    if first is not None:
        rec.count("re_extractions")
        for k, v in out.items():
            if k in first and any(abs(x - y) > 1e-9 for x, y in zip(v, first[k])):
                rec.violation("weights:changed-by-re-extraction" + (":after-a-sibling-grammar" if after_sibling else ""), {"grammar": desc["name"], "rule": k, "first": first[k], "now": v, "extraction": nth})
    return out


def install_chooser_monitor(rec_holder):
    import icontract
    from geneticengine.representations.tree import initializations as I
    from geneticengine.representations import stackgggp as ST

    if getattr(I.ProgressivelyTerminalDecider, "_gev_c19", False):
        return

    class PostBroken(Exception):
        pass

    def post_choice(self, ty, alternatives, ctx, result):
        rec = rec_holder["rec"]
        w = self.grammar.get_weights()
        ws = [w.get(a, 1.0) for a in alternatives]
        rec.count("progressive_choices")
        rec.count("evaluations")
        if any(x == 0 for x in ws) and any(x > 0 for x in ws):
            rec.count("progressive_choices_with_zero_offer")
        chosen = [i for i, a in enumerate(alternatives) if a is result]
        rec.distinct_add(["progressive", [round(x, 6) for x in ws], chosen[:1], ctx.depth])
        if chosen and ws[chosen[0]] == 0 and any(x > 0 for x in ws):
            rec.violation("zero-weight-production-chosen:ProgressivelyTerminalDecider", {"offered": [getattr(a, "__name__", str(a)) for a in alternatives], "weights": ws, "chosen": getattr(result, "__name__", str(result)), "ctx_depth": ctx.depth, "grammar": rec_holder.get("grammar")})
        return True

    I.ProgressivelyTerminalDecider.choose_production_alternatives = icontract.ensure(post_choice, error=PostBroken)(I.ProgressivelyTerminalDecider.choose_production_alternatives)
    I.ProgressivelyTerminalDecider._gev_c19 = True

    def post_weighted(self, choices, weights, result):
        rec = rec_holder["rec"]
        if not rec_holder.get("in_stack"):
            return True
        rec.count("stack_weighted_choices")
        rec.count("evaluations")
        if any(isinstance(c, type) and c.__dict__.get("__gengy__", {}).get("weight", 1.0) == 0 for c in choices):
            rec.count("stack_zero_offers")
        idx = [i for i, c in enumerate(choices) if c is result]
        # judged on the DECLARED (normalised) production weights, not on what the mapper chose to pass down
        declared = [(c.__dict__.get("__gengy__", {}).get("weight", 1.0) if isinstance(c, type) and c.__module__ != "builtins" else 1.0) for c in choices]
        if idx and declared[idx[0]] == 0 and any(x > 0 for x in declared):
            rec.violation("zero-weight-production-chosen:stack-mapper", {"declared_weights": [round(x, 6) for x in declared], "passed_weights": [round(x, 6) for x in weights], "chosen": getattr(result, "__name__", str(result)), "grammar": rec_holder.get("grammar")})
        elif idx and weights[idx[0]] == 0 and any(x > 0 for x in weights):
            rec.violation("zero-weight-production-chosen:stack-mapper", {"weights": [round(x, 6) for x in weights], "chosen_index": idx[0], "chosen": getattr(result, "__name__", str(result)), "grammar": rec_holder.get("grammar")})
        return True

    ST.ListWrapper.choice_weighted = icontract.ensure(post_weighted, error=PostBroken)(ST.ListWrapper.choice_weighted)


HOLDER: dict = {"rec": None}


def setup(rec):
    HOLDER["rec"] = rec
    install_chooser_monitor(HOLDER)


TWO_BASES = {  # a production that lists two abstract grammar types as direct bases, in a weighted hierarchy
    "name": "w_two_bases",
    "rules_from_library": True,
    "abstracts": [{"name": "Root", "parent": None, "style": "abc"}, {"name": "Shape", "parent": "Root", "style": "decorator"}, {"name": "Colour", "parent": "Root", "style": "decorator"}],
    "prods": [
        {"name": "Square", "parent": "Shape", "fields": [], "weight": 3},
        {"name": "Shared", "parent": "Shape", "also": ["Colour"], "fields": []},
        {"name": "Red", "parent": "Colour", "fields": [], "weight": 1},
        {"name": "Blue", "parent": "Colour", "fields": [["k", ["ann", ["int"], ["IntRange", 0, 2]]]], "weight": 2},
    ],
    "start": "Root",
}


UNLISTED_WEIGHT = {  # the only declared weight sits on a nested abstract type that is NOT listed among the supplied classes
    "name": "w_unlisted_nested",
    "abstracts": [{"name": "A", "parent": None, "style": "abc"}, {"name": "B", "parent": "A", "style": "decorator", "weight": 3}],
    "prods": [
        {"name": "C", "parent": "A", "fields": [["x", ["ann", ["int"], ["IntRange", 0, 2]]]]},
        {"name": "D", "parent": "B", "fields": []},
        {"name": "E", "parent": "B", "fields": [["y", ["bool"]]]},
    ],
    "considered": ["C", "D", "E"],
    "start": "A",
}


W_UNPRODUCTIVE = {  # a weighted rule next to a production that cannot be completed (its field's type has no production here)
    "name": "w_uncompletable_sibling",
    "abstracts": [{"name": "Expr", "parent": None, "style": "abc"}, {"name": "BoolExpr", "parent": None, "style": "abc"}],
    "prods": [
        {"name": "Legacy", "parent": "Expr", "fields": [], "weight": 0},
        {"name": "Truthy", "parent": "Expr", "fields": [["cond", ["ref", "BoolExpr"]]]},
        {"name": "Lit", "parent": "Expr", "fields": [["v", ["ann", ["int"], ["IntRange", 0, 3]]]], "weight": 3},
        {"name": "Neg", "parent": "Expr", "fields": [["e", ["ref", "Expr"]]]},
    ],
    "start": "Expr",
}


W_STANDALONE = {  # a weight above 1 on a class that is no production of any rule (a concrete class used as a field type)
    "name": "w_standalone_class",
    "abstracts": [{"name": "Root", "parent": None, "style": "abc"}],
    "prods": [
        {"name": "A", "parent": "Root", "fields": [], "weight": 2},
        {"name": "B", "parent": "Root", "fields": [["x", ["ref", "Pair"]]]},
        {"name": "Pair", "parent": None, "fields": [["k", ["ann", ["int"], ["IntRange", 0, 2]]]], "weight": 5},
    ],
    "start": "Root",
}


W_TINY = {  # a rule all of whose declared weights are tiny (relative weights: only the ratios mean anything), one of them zero
    "name": "w_tiny_weights",
    "abstracts": [{"name": "Expr", "parent": None, "style": "abc"}, {"name": "Op", "parent": "Expr", "style": "decorator", "weight": 3}],
    "prods": [
        {"name": "Leaf", "parent": "Expr", "fields": []},
        {"name": "Never", "parent": "Op", "fields": [], "weight": 0},
        {"name": "Rare", "parent": "Op", "fields": [["e", ["ref", "Expr"]]], "weight": 1e-10},
        {"name": "Common", "parent": "Op", "fields": [["k", ["bool"]]], "weight": 3e-10},
    ],
    "start": "Expr",
}


W_TINY_BESIDE_HEAVY = {  # a tiny share next to a zero and a heavy RECURSIVE production: where the depth heuristic rules the
    # heavy one out, the chooser is left with [0, ~1e-7] - below the 1e-5 that choice_weighted resolves
    "name": "w_tiny_beside_heavy",
    "abstracts": [{"name": "A", "parent": None, "style": "decorator"}],
    "prods": [
        {"name": "Z", "parent": "A", "fields": [], "weight": 0},
        {"name": "T", "parent": "A", "fields": [], "weight": 1e-7},
        {"name": "R", "parent": "A", "fields": [["l", ["ref", "A"]], ["r", ["ref", "A"]]], "weight": 1},
    ],
    "start": "A",
}


def run_case(case, rec):
    HOLDER["rec"] = rec
    desc = grammars.gen_descriptor(case["seed"] * 7919 + case["i"], "weighted")
    if case["i"] % 25 == 7:
        desc = dict(TWO_BASES)
        rec.count("hierarchies_with_a_two_base_production")
    if case["i"] % 25 == 23:
        desc = dict(W_STANDALONE)
        rec.count("hierarchies_with_a_weighted_standalone_class")
    if case["i"] % 25 == 19:
        desc = dict(W_UNPRODUCTIVE)
        rec.count("hierarchies_with_an_uncompletable_sibling")
    if case["i"] % 25 == 3:
        desc = dict(W_TINY)
        rec.count("hierarchies_with_tiny_weights")
    if case["i"] % 25 == 17:
        desc = dict(W_TINY_BESIDE_HEAVY)
        rec.count("hierarchies_with_a_tiny_share_beside_a_heavy_recursive_production")
    if case["i"] % 25 == 13:
        desc = dict(UNLISTED_WEIGHT)
        rec.count("hierarchies_whose_only_weight_is_on_an_unlisted_class")
    HOLDER["grammar"] = desc["name"]
    built = grammars.materialise(desc)
    try:
        model = refmodel.Model(built.classes, built.start)
        if not any(p.get("weight") is not None for p in desc["prods"] + desc["abstracts"]):
            rec.count("hierarchies_without_any_weight_skipped")  # the statement is about classes carrying weights
            return
        first = None
        g = None
        sibling_done = False
        for nth in range(1, case["extractions"] + 1):
            if nth == 2 and case["i"] % 2 == 0:
                # another grammar over a SUBSET of the same classes is extracted in between (a second model being fitted,
                # a sub-language): the grammar under observation, extracted again, must come out as declared
                drop = set()
                for a in desc["abstracts"]:
                    ps = [p for p in desc["prods"] if p.get("parent") == a["name"]]
                    if len(ps) >= 2:
                        drop.add(ps[-1]["name"])
                sub = [c for c in built.classes if c.__name__ not in drop]
                if drop and (built.start in sub or refmodel.is_abs(built.start)):
                    try:
                        from geneticengine.grammar.grammar import extract_grammar

                        extract_grammar(sub, built.start)
                        sibling_done = True
                        rec.count("sibling_extractions_in_between")
                    except core.CaseTimeout:
                        raise
                    except BaseException:  # noqa - the sibling's own fate is not judged here
                        rec.count("sibling_extraction_raised")
            try:
                g = grammars.extract(built)
            except core.CaseTimeout:
                raise
            except BaseException as e:  # noqa
                rec.violation(f"extract:raises:{type(e).__name__}@{core.exc_site(e)}", {"grammar": desc["name"], "extraction": nth, "error": core.short(e)})
                return
            cur = check_weights(desc, built, g, model, rec, nth, first, after_sibling=sibling_done and nth >= 2)
            if first is None:
                first = cur
        if case["i"] % 40 == 0:
            rec.sample({"grammar": desc["name"], "declared": declared(desc), "normalised": {k.__name__: round(v, 6) for k, v in g.get_weights().items() if isinstance(k, type) and k.__module__ != "builtins"}, "extractions": case["extractions"]})
        if g.get_min_tree_depth() >= 1000000:
            return
        # respected: weight-aware choosers under boundary-probing sources
        src = ProbeSource(case["s"], case["policy"])
        from geneticengine.representations.tree.initializations import ProgressivelyTerminalDecider
        from geneticengine.solutions.tree import LocalSynthesisContext

        dec = ProgressivelyTerminalDecider(src, g)
        for a, prods in list(g.alternatives.items()):
            for depth in (0, 1, 2, 5, 9):
                for pol in ("lo", "hi", "mid"):
                    src.policy = pol
                    try:
                        dec.choose_production_alternatives(a, list(prods), LocalSynthesisContext(depth, 0, 0, {}))
                    except core.CaseTimeout:
                        raise
                    except BaseException as e:  # noqa
                        rec.violation(f"chooser-raises:ProgressivelyTerminalDecider:{type(e).__name__}@{core.exc_site(e)}", {"grammar": desc["name"], "error": core.short(e)})
        src.policy = case["policy"]
        # whole creations (choice points reached through the real create_node)
        from geneticengine.representations.tree.treebased import TreeBasedRepresentation

        rep = TreeBasedRepresentation(g, ProgressivelyTerminalDecider(workload.native(case["s"]), g))
        for _ in range(3):
            try:
                with core.time_limit(3):
                    rep.create_genotype(workload.native(case["s"] + _))
            except core.CaseTimeout:
                rec.count("creation_cut_short")
            except BaseException:  # noqa
                rec.count("creation_raised")
        # stack mapper's weighted type choice
        from geneticengine.representations.stackgggp import StackBasedGGGPRepresentation

        srep = StackBasedGGGPRepresentation(g, gene_length=128)
        HOLDER["in_stack"] = True
        try:
            for k in range(3):
                try:
                    with core.time_limit(3):
                        srep.genotype_to_phenotype(srep.create_genotype(workload.native(case["s"] + k)))
                except core.CaseTimeout:
                    rec.count("stack_mapping_cut_short")
                except BaseException:  # noqa
                    rec.count("stack_mapping_raised")
        finally:
            HOLDER["in_stack"] = False
    finally:
        built.dispose()
