"""C14 - searches terminate and stop at the first budget check after the budget is met."""

from __future__ import annotations

import random as pyrandom

from gev import core, evo, workload

PROPERTY = "C14"
LEVEL = "exploration"
TECHNIQUE = "runtime monitor: a delegating budget wrapper (extension API) logs every is_done check (evaluations so far, inner verdict, best fitness) and a fitness-invocation log gives the true count; an offline checker over the check history decides first-check-after-n, the bounds, TargetFitness at its first satisfying check and AnyOf == a or b; termination is decided as bounded progress by a logical watchdog on the number of checks; in GP runs a delegating step logs which individuals enter each generation, so the target budget is judged independently of the tracker's own record; runs through the geml.SimpleGP front-end have their budget wrapped after construction"
RULE = (
    "cases = (algorithm in GP/RS/HC/1+1, n in 1..60, population / neighbourhood size 1..12, representation, step composition incl. zero-creation ones, "
    "budget in {EvaluationBudget, TargetFitness, AnyOf of both in either order}, integer-valued landscape incl. plateaus and never-reaching ones); plus runs through the geml.SimpleGP front-end (target_fitness in None/0/0.0/-0.0/other, max_evaluations), whose own budget is wrapped after construction; "
    "distinct_nontrivial = distinct (algorithm, n, size, budget kind, check history) observations with at least two checks"
)
ASSUMPTIONS = [
    "termination = bounded progress: every iteration that evaluates at least one new individual must bring the count closer to n; a run is a non-termination witness when the logical watchdog (n + batch + 50 consecutive stalled checks) fires",
    "landscapes are integer-valued, so TargetFitness' tolerance (1e-4) is never borderline",
    "wall-clock watchdogs only ever yield inconclusive",
]
PLAN = {
    "quick": {"shards": 8, "shard_timeout": 300, "case_timeout": 30, "runs": 2000, "max_case_timeouts": 3},
    "thorough": {"shards": 16, "shard_timeout": 3600, "case_timeout": 60, "runs": 1200000, "max_case_timeouts": 10},
}
THRESHOLDS = {
    "quick": {"searches_whose_tracker_was_built_before_an_earlier_search_ran": 100, "searches_on_an_evaluator_that_served_an_earlier_search": 100, "frontend_second_objective:never": 2, "frontend_second_objective:later": 2, "runs_checked": 600, "budget_checks": 5000, "alg:gp": 100, "alg:rs": 100, "alg:hc": 100, "alg:opo": 100, "kind:evaluation": 200, "kind:target": 100, "kind:anyof": 150, "target_reached_runs": 60, "zero_creation_runs": 10, "selection_after_variation_runs": 40, "frontend_runs": 40, "frontend_multi_objective_runs": 8, "multi_target_runs": 40, "multi_target:rs": 8, "multi_target:hc": 8, "multi_target:opo": 8, "multi_target_reached_runs": 8, "frontend_repr:ge": 3, "frontend_repr:dsge": 3, "frontend_repr:stack": 3, "gp_runs_with_membership_model": 100, "frontend_runs_with_target_zero": 10, "frontend_target_reached_runs": 15},
    "thorough": {"runs_checked": 15000, "budget_checks": 120000, "zero_creation_runs": 300},
}


class Stalled(Exception):
    pass


def gen_cases(tier, seed):
    rng = pyrandom.Random(f"c14-{seed}")
    for i in range(PLAN[tier]["runs"]):
        alg = ["gp", "rs", "hc", "opo"][i % 4]
        kind = rng.choice(["evaluation", "evaluation", "target", "anyof-et", "anyof-te"])
        yield {
            "alg": alg,
            "n": rng.choice([1, 1, 2, 3, 5, 7, 10, 11, 20, 33, 60]),
            "size": rng.randint(1, 12) if alg != "gp" else rng.randint(2, 12),
            "repr": rng.choice(["tree", "ge"]),
            "kind": kind,
            "minimize": rng.random() < 0.5,
            "landscape": rng.choice(["counter", "plateau", "never", "hash"]),
            "target_at": rng.randint(1, 40),
            "step": rng.choice(["default", "default", "mut", "elitism-only", "cx0-mut0", "mut-then-tournament", "par-mut-then-tournament", "mut-then-elitism"]) if alg == "gp" else None,
            "seed": rng.randrange(10**6),
        }
    yield from gen_frontend(rng, max(60, PLAN[tier]["runs"] // 20))
    yield from gen_multi_target(rng, max(60, PLAN[tier]["runs"] // 25))


def gen_multi_target(rng, n):
    """Target budgets for multi-objective problems, with every algorithm (the single-solution searches check their
    budget before the first evaluation, when nothing is best yet)."""
    for i in range(n):
        yield {"multi_target": rng.choice(["TargetMultiFitness", "TargetMultiSameFitness"]), "alg": ["rs", "hc", "opo", "gp"][i % 4], "n": rng.choice([5, 9, 14, 25]), "size": rng.choice([2, 3, 5]), "target_at": rng.randint(1, 20), "landscape": rng.choice(["plateau", "never"]), "order": rng.choice(["target-first", "evaluation-first"]), "minimize": rng.random() < 0.5, "repr": rng.choice(["tree", "ge"]), "seed": rng.randrange(10**6)}


def run_multi_target(case, rec):
    from geneticengine.algorithms.gp.gp import GeneticProgramming
    from geneticengine.algorithms.hill_climbing import HC
    from geneticengine.algorithms.one_plus_one import OnePlusOne
    from geneticengine.algorithms.random_search import RandomSearch
    from geneticengine.evaluation import budget as B
    from geneticengine.evaluation.sequential import SequentialEvaluator
    from geneticengine.evaluation.tracker import MultiObjectiveProgressTracker
    from geneticengine.problems import MultiObjectiveProblem

    g, _ = evo.tiny()
    src = workload.native(case["seed"])
    rep = evo.make_rep(case["repr"], g, src)
    minimize, n = case["minimize"], case["n"]
    T = -500.0 if minimize else 500.0  # best in the declared direction on both objectives
    calls = [0]

    def f(p):
        calls[0] += 1
        k = calls[0]
        if case["landscape"] == "plateau" and k >= case["target_at"]:
            return [T, T]
        return [float(k % 5), float(k % 3)]

    prob = MultiObjectiveProblem([minimize, minimize], f)
    tracker = MultiObjectiveProgressTracker(prob, SequentialEvaluator())
    log: list = []

    class Watching(B.SearchBudget):
        def __init__(self, inner):
            self.inner = inner

        def is_done(self, tr):
            verdict = self.inner.is_done(tr)
            best = tr.get_best_individuals()
            log.append({"evals": tr.get_number_evaluations(), "verdict": bool(verdict), "best": None if not best else list(best[0].get_fitness(tr.get_problem()).fitness_components)})
            if len(log) > n + 300:
                raise Stalled()
            return verdict

    target = B.TargetMultiFitness([T, T]) if case["multi_target"] == "TargetMultiFitness" else B.TargetMultiSameFitness(T)
    inner = B.AnyOf(target, B.EvaluationBudget(n)) if case["order"] == "target-first" else B.AnyOf(B.EvaluationBudget(n), target)
    budget = Watching(inner)
    alg = {
        "gp": lambda: GeneticProgramming(prob, budget, rep, src, tracker=tracker, population_size=case["size"]),
        "rs": lambda: RandomSearch(prob, budget, rep, src, tracker=tracker),
        "hc": lambda: HC(prob, budget, rep, src, tracker=tracker, number_of_mutations=case["size"]),
        "opo": lambda: OnePlusOne(prob, budget, rep, src, tracker=tracker),
    }[case["alg"]]()
    wit = {k: case[k] for k in ("multi_target", "alg", "n", "size", "target_at", "landscape", "order", "minimize", "repr")}
    rec.count("multi_target_runs")
    rec.count(f"multi_target:{case['alg']}")
    rec.count("evaluations")
    try:
        alg.search()
    except Stalled:
        rec.violation("non-termination:creating-step:multi-target", dict(wit, checks=len(log)))
        return
    except core.CaseTimeout:
        raise
    except BaseException as e:  # noqa
        rec.violation(f"search:raises:{type(e).__name__}@{core.exc_site(e)}:multi-target", dict(wit, error=core.short(e), checks_before=len(log), evaluations=calls[0]))
        return
    if not log:
        rec.violation("budget-never-checked", wit)
        return
    reached = [e["best"] is not None and all(abs(c - T) < 0.001 for c in e["best"]) for e in log]
    first = next((i for i, (ok, e) in enumerate(zip(reached, log)) if ok or e["evals"] >= n), None)
    if not log[-1]["verdict"] or any(e["verdict"] for e in log[:-1]):
        rec.violation("search-continued-after-a-true-check-or-stopped-on-a-false-one", dict(wit, history=[(e["evals"], e["verdict"]) for e in log[-5:]]))
    elif first != len(log) - 1:
        rec.violation(f"anyof:{'stopped-before-either-member' if first is None else 'continued-after-a-member-was-done'}:multi-target", dict(wit, history=[(e["evals"], e["best"], e["verdict"]) for e in log[-5:]], expected_last=first))
    else:
        if reached[-1]:
            rec.count("multi_target_reached_runs")
        rec.distinct_add(["multi-target", wit, [(e["evals"], e["verdict"]) for e in log]])


def gen_frontend(rng, n):
    """The documented front-end (geml.SimpleGP) builds its own disjunction of budgets from keyword arguments."""
    for _ in range(n):
        yield {
            "front": "simplegp",
            "target": rng.choice([None, 0, 0.0, -0.0, 0, 5, -3.5, 1e-9, 100.0]),
            "minimize": rng.random() < 0.5,
            "objectives": rng.choice([1, 1, 1, 2]),
            "max_evaluations": rng.choice([30, 45, 60, 90]),
            "pop": rng.choice([3, 4, 6, 10]),
            "target_at": rng.randint(1, 40),
            "landscape": rng.choice(["plateau", "plateau", "counter", "never"]),
            "repr": rng.choice(["treebased", "treebased", "ge", "sge", "dsge", "stack"]),  # every name the front-end advertises
            "seed": rng.randrange(10**6),
        }


def run_frontend(case, rec):
    from geml.simplegp import SimpleGP
    from geneticengine.evaluation.budget import SearchBudget

    g, _ = evo.tiny()
    target, minimize, cap = case["target"], case["minimize"], case["max_evaluations"]
    t = 0.0 if target is None else float(target)
    calls = [0]

    def f(p):
        calls[0] += 1
        k = calls[0]
        worse = (1 + k % 5) if minimize else -(1 + k % 5)  # never within tolerance of the target, always worse than it
        if case["landscape"] == "plateau" and k >= case["target_at"]:
            v = t
        elif case["landscape"] == "counter" and k == case["target_at"]:
            v = t
        else:
            v = t + worse
        if nobj != 2:
            return v
        # the second objective follows the first one, reaches the target later, or never does: the best fitness is within
        # tolerance of the target when ALL of it is
        if second == "later" and k < case["target_at"] + 7:
            return [v, t + worse]
        if second == "never":
            return [v, t + worse]
        return [v, v]

    nobj = case.get("objectives", 1)
    second = ["same", "later", "never"][case["seed"] % 3] if nobj == 2 else "same"
    if nobj == 2:
        rec.count(f"frontend_second_objective:{second}")
    if nobj == 2:
        rec.count("frontend_multi_objective_runs")
    log: list = []

    class Watching(SearchBudget):  # delegating wrapper around the budget the front-end built
        def __init__(self, inner):
            self.inner = inner

        def is_done(self, tr):
            verdict = self.inner.is_done(tr)
            best = tr.get_best_individual()
            log.append({"evals": tr.get_number_evaluations(), "calls": calls[0], "verdict": bool(verdict), "best": None if best is None else list(best.get_fitness(tr.get_problem()).fitness_components)})
            if len(log) > cap + 200:
                raise Stalled()
            return verdict

    wit = {"front": "SimpleGP", "target_fitness": repr(target), "objectives": nobj, "second_objective": second, "minimize": minimize, "max_evaluations": cap, "population": case["pop"], "landscape": case["landscape"], "target_at": case["target_at"], "repr": case["repr"]}
    try:
        gp = SimpleGP(f, g, minimize=[minimize, minimize] if nobj == 2 else minimize, target_fitness=target, representation=case["repr"], max_depth=4, max_evaluations=cap, max_time=600, seed=case["seed"], population_size=case["pop"], elitism=1, novelty=1)
        gp.gp.budget = Watching(gp.gp.budget)
        gp.search()
    except Stalled:
        rec.violation("non-termination:creating-step:frontend", dict(wit, checks=len(log)))
        return
    except core.CaseTimeout:
        raise
    except BaseException as e:  # noqa
        rec.violation(f"search:raises:{type(e).__name__}@{core.exc_site(e)}", dict(wit, error=core.short(e)))
        return
    rec.count("frontend_runs")
    rec.count(f"frontend_repr:{case['repr']}")
    rec.count("evaluations")
    rec.count("budget_checks", len(log))
    if target is not None and float(target) == 0.0:
        rec.count("frontend_runs_with_target_zero")
    if not log:
        rec.violation("budget-never-checked", wit)
        return
    reached = [target is not None and e["best"] is not None and all(abs(c - t) < 1e-4 for c in e["best"]) for e in log]
    first = next((i for i, (ok, e) in enumerate(zip(reached, log)) if ok or e["evals"] >= cap), None)
    hist = [(e["evals"], e["best"], e["verdict"]) for e in log[-6:]]
    if not log[-1]["verdict"] or any(e["verdict"] for e in log[:-1]):
        rec.violation("search-continued-after-a-true-check-or-stopped-on-a-false-one", dict(wit, history=hist))
    elif first != len(log) - 1:
        which = "target" if first is not None and reached[first] else "evaluation"
        rec.violation(f"frontend:{'stopped-before-either-member' if first is None else 'continued-after-a-member-was-done'}:{which}", dict(wit, history=hist, expected_last_check=first, checks=len(log)))
    else:
        if reached[-1]:
            rec.count("frontend_target_reached_runs")
            rec.count("target_reached_runs")
        rec.distinct_add(["frontend", wit, [(e["evals"], e["verdict"]) for e in log]])
    rec.sample(dict(wit, checks=len(log), total_evaluations=log[-1]["evals"], last_checks=hist[-3:]), cap=3)


def run_case(case, rec):
    if case.get("front") == "simplegp":
        return run_frontend(case, rec)
    if case.get("multi_target"):
        return run_multi_target(case, rec)
    from geneticengine.algorithms.gp.gp import GeneticProgramming
    from geneticengine.algorithms.gp.operators.combinators import ParallelStep, SequenceStep
    from geneticengine.algorithms.gp.operators.crossover import GenericCrossoverStep
    from geneticengine.algorithms.gp.operators.elitism import ElitismStep
    from geneticengine.algorithms.gp.operators.mutation import GenericMutationStep
    from geneticengine.algorithms.gp.operators.selection import TournamentSelection
    from geneticengine.algorithms.hill_climbing import HC
    from geneticengine.algorithms.one_plus_one import OnePlusOne
    from geneticengine.algorithms.random_search import RandomSearch
    from geneticengine.evaluation.budget import AnyOf, EvaluationBudget, SearchBudget, TargetFitness
    from geneticengine.evaluation.sequential import SequentialEvaluator
    from geneticengine.evaluation.tracker import SingleObjectiveProgressTracker
    from geneticengine.problems import SingleObjectiveProblem

    g, _ = evo.tiny()
    src = workload.native(case["seed"])
    rep = evo.make_rep(case["repr"], g, src)
    n, size, minimize = case["n"], case["size"], case["minimize"]
    TARGET = -1000.0 if minimize else 1000.0  # the target is the best value in the declared direction, so it stays the best once seen
    calls = [0]
    values: list = []

    def f(p):
        calls[0] += 1
        k = calls[0]
        ls = case["landscape"]
        if ls == "never":
            v = float(k % 5)
        elif ls == "plateau":
            v = TARGET if k >= case["target_at"] else 3.0
        elif ls == "counter":
            v = TARGET if k == case["target_at"] else float(k % 7)
        else:
            v = TARGET if evo.stable_hash(evo.text(p)) % 11 == 0 else float(evo.stable_hash(evo.text(p)) % 9)
        values.append(v)
        return v

    prob = SingleObjectiveProblem(f, minimize=minimize)
    evaluator = SequentialEvaluator()
    if case["seed"] % 4 == 0:
        # the evaluator object served an EARLIER search (one evaluator - a pool of workers, say - for several searches in a
        # row): "a search with an evaluation budget n" counts its own evaluations
        earlier = 3 + case["seed"] % 11
        RandomSearch(SingleObjectiveProblem(lambda p: 0.0), EvaluationBudget(earlier), rep, workload.native(case["seed"] + 1), tracker=SingleObjectiveProgressTracker(SingleObjectiveProblem(lambda p: 0.0), evaluator)).search()
        rec.count("searches_on_an_evaluator_that_served_an_earlier_search")
    tracker = SingleObjectiveProgressTracker(prob, evaluator)
    if case["seed"] % 4 == 1:
        # a list of configured searches, run one after the other: every tracker is built FIRST (without an evaluator of its
        # own choosing - the usual idiom when only recorders are wanted), the searches run afterwards
        p0 = SingleObjectiveProblem(lambda p: 0.0)
        first = SingleObjectiveProgressTracker(p0)
        tracker = SingleObjectiveProgressTracker(prob)
        RandomSearch(p0, EvaluationBudget(3 + case["seed"] % 11), rep, workload.native(case["seed"] + 1), tracker=first).search()
        rec.count("searches_whose_tracker_was_built_before_an_earlier_search_ran")
    log: list = []
    batch = {"gp": size, "rs": 1, "hc": size, "opo": 1}[case["alg"]]
    limit_stall = 50

    class Monitored(SearchBudget):
        def __init__(self, inner, name, outer=False):
            self.inner, self.name, self.outer = inner, name, outer
            self.history: list = []

        def is_done(self, tr):
            verdict = self.inner.is_done(tr)
            best = tr.get_best_individual()
            entry = {"evals": tr.get_number_evaluations(), "calls": calls[0], "verdict": bool(verdict), "best": None if best is None else best.get_fitness(tr.get_problem()).fitness_components[0]}
            self.history.append(entry)
            if self.outer:
                log.append(entry)
                stalled = 0
                for a, b in zip(reversed(log[:-1]), reversed(log)):
                    if a["evals"] == b["evals"]:
                        stalled += 1
                    else:
                        break
                if not verdict and (stalled >= limit_stall or len(log) > max(n, case["target_at"]) + 500):
                    raise Stalled()  # logical watchdog: far more checks than any correct run of this configuration needs
            return verdict

    eb, tf = Monitored(EvaluationBudget(n), "evaluation"), Monitored(TargetFitness(TARGET), "target")
    if case["kind"] == "evaluation":
        budget, members = Monitored(eb.inner, "outer", True), None
    elif case["kind"] == "target":
        # a target budget alone may never be met on a never-reaching landscape: pair it with a generous evaluation cap
        # that is NOT under test (user-level safety net), unless the landscape surely reaches the target
        if case["landscape"] in ("never", "hash"):
            budget, members = Monitored(AnyOf(tf, Monitored(EvaluationBudget(n + 200), "cap")), "outer", True), None
        else:
            budget, members = Monitored(tf.inner, "outer", True), None
    else:
        a, b = (eb, tf) if case["kind"] == "anyof-et" else (tf, eb)
        budget, members = Monitored(AnyOf(a, b), "outer", True), (a, b)

    step = None
    if case["alg"] == "gp" and case["step"] != "default":
        step = {
            "mut": ParallelStep([ElitismStep(), SequenceStep(TournamentSelection(2), GenericMutationStep(1.0))], weights=[1, 9]),
            "elitism-only": ElitismStep(),
            "cx0-mut0": SequenceStep(TournamentSelection(2), GenericCrossoverStep(0.0), GenericMutationStep(0.0)),
            # selection AFTER variation: the step itself meets individuals that have no fitness yet
            "mut-then-tournament": SequenceStep(GenericMutationStep(1.0), TournamentSelection(2)),
            "par-mut-then-tournament": ParallelStep([ElitismStep(), SequenceStep(GenericMutationStep(1.0), TournamentSelection(3, with_replacement=True))], weights=[1, 4]),
            "mut-then-elitism": SequenceStep(GenericMutationStep(1.0), ElitismStep()),
        }[case["step"]]
    gen_members: list = []  # individuals handed to a generation's Population by the step, in order (GP only)

    if case["alg"] == "gp":
        from geneticengine.algorithms.gp.gp import default_generic_programming_step
        from geneticengine.algorithms.gp.structure import GeneticStep

        inner_step = step if step is not None else default_generic_programming_step()

        class Membership(GeneticStep):  # delegating step (extension API): logs what enters each generation
            def iterate(self, problem, evaluator, representation, random, population, target_size, generation):
                for ind in inner_step.apply(problem, evaluator, representation, random, population, target_size, generation):
                    gen_members.append((len(log), ind))
                    yield ind

        step = Membership()
    alg = {
        "gp": lambda: GeneticProgramming(prob, budget, rep, src, tracker=tracker, population_size=size, step=step),
        "rs": lambda: RandomSearch(prob, budget, rep, src, tracker=tracker),
        "hc": lambda: HC(prob, budget, rep, src, tracker=tracker, number_of_mutations=size),
        "opo": lambda: OnePlusOne(prob, budget, rep, src, tracker=tracker),
    }[case["alg"]]()
    wit = {k: case[k] for k in ("alg", "n", "size", "kind", "minimize", "landscape", "step", "repr", "target_at")}
    zero_creation = case.get("step") in ("elitism-only", "cx0-mut0")
    if zero_creation:
        rec.count("zero_creation_runs")
    try:
        alg.search()
        terminated = True
    except Stalled:
        terminated = False
    except core.CaseTimeout:
        raise
    except BaseException as e:  # noqa
        rec.violation(f"search:raises:{type(e).__name__}@{core.exc_site(e)}", dict(wit, error=core.short(e)))
        return
    rec.count("runs_checked")
    rec.count("evaluations")
    rec.count(f"alg:{case['alg']}")
    rec.count("kind:" + case["kind"].split("-")[0])
    rec.count("budget_checks", len(log))
    hist = [(e["evals"], e["verdict"]) for e in log]
    if not terminated and case["kind"] == "target":
        rec.count("target_only_runs_that_stalled")  # no evaluation budget involved: nothing is promised
        return
    if not terminated:
        creating = any(a["evals"] != b["evals"] for a, b in zip(log[-limit_stall:], log[-limit_stall + 1 :]))
        rec.violation(f"non-termination:{'zero-creation-step' if zero_creation else 'creating-step'}:{case['kind'].split('-')[0]}", dict(wit, checks=len(log), evaluations=log[-1]["evals"], last_checks=hist[-4:], progressing=creating))
        return
    if not log:
        rec.violation("budget-never-checked", wit)
        return
    # honest counter (C13 decides it in depth; here it anchors the bounds)
    if log[-1]["evals"] != log[-1]["calls"]:
        rec.count("counter_differs_from_invocations")
    if case.get("step") in ("mut-then-tournament", "par-mut-then-tournament", "mut-then-elitism"):
        rec.count("selection_after_variation_runs")
    # all checks but the last are false, the last is true
    if not log[-1]["verdict"] or any(e["verdict"] for e in log[:-1]):
        rec.violation("search-continued-after-a-true-check-or-stopped-on-a-false-one", dict(wit, history=hist[-6:]))
        return
    total = log[-1]["evals"]
    model_target = [e["best"] is not None and abs(e["best"] - TARGET) < 1e-4 for e in log]
    if case["alg"] == "gp" and gen_members:
        # independent of the tracker: every member of a generation has been through the search's evaluation by the next
        # check, so once a member holding the target fitness exists, the best fitness is the target (the target is the
        # best value in the declared direction). A member that entered before check k is known at check k.
        rec.count("gp_runs_with_membership_model")
        first_target_member = next((k for k, ind in gen_members if ind.has_fitness(prob) and abs(ind.get_fitness(prob).fitness_components[0] - TARGET) < 1e-4), None)
        if first_target_member is not None:
            model_target = [ok or i >= first_target_member for i, ok in enumerate(model_target)]
    if case["kind"] == "evaluation":
        first = next((i for i, e in enumerate(log) if e["evals"] >= n), None)
        if first != len(log) - 1:
            rec.violation(f"evaluation-budget:{'stopped-early' if first is None or first > len(log) - 1 else 'continued-past-first-check-with-n'}:{case['alg']}", dict(wit, history=hist[-6:], first_check_with_n=first))
        elif not (n <= total < n + max(batch, 1)):
            rec.violation(f"evaluation-budget:total-out-of-bounds:{case['alg']}", dict(wit, total=total, bound=[n, n + batch]))
        elif not (n <= log[-1]["calls"] < n + max(batch, 1)):
            # the statement bounds the evaluations MADE: fitness invocations the counter does not see still count
            rec.violation(f"evaluation-budget:invocations-out-of-bounds:{case['alg']}", dict(wit, fitness_invocations=log[-1]["calls"], counter=total, bound=[n, n + batch]))
    elif case["kind"] == "target" and case["landscape"] not in ("never", "hash"):
        first = next((i for i, ok in enumerate(model_target) if ok), None)
        if first != len(log) - 1:
            rec.violation(f"target-budget:{'stopped-before-target' if first is None else 'continued-past-first-satisfying-check'}:{'min' if minimize else 'max'}", dict(wit, history=[(e['evals'], e['best'], e['verdict']) for e in log[-6:]], first_satisfying_check=first))
        else:
            rec.count("target_reached_runs")
    elif case["kind"] == "target":
        # disjunction with the safety cap: stop at the first check where either holds
        first = next((i for i, (ok, e) in enumerate(zip(model_target, log)) if ok or e["evals"] >= n + 200), None)
        if first != len(log) - 1:
            rec.violation("target-budget:wrong-stopping-check", dict(wit, history=[(e['evals'], e['best'], e['verdict']) for e in log[-6:]], expected_last=first))
        elif model_target[-1]:
            rec.count("target_reached_runs")
    else:
        first = next((i for i, (ok, e) in enumerate(zip(model_target, log)) if ok or e["evals"] >= n), None)
        if first != len(log) - 1:
            rec.violation(f"anyof:{'stopped-before-either-member' if first is None else 'continued-after-a-member-was-done'}", dict(wit, history=[(e['evals'], e['best'], e['verdict']) for e in log[-6:]], expected_last=first))
        a, b = members
        # AnyOf == a or b at every check (b may be skipped when a is already true)
        ia = ib = 0
        for e in log:
            va = a.history[ia]["verdict"] if ia < len(a.history) else None
            ia += 1
            if va:
                exp = True
            else:
                vb = b.history[ib]["verdict"] if ib < len(b.history) else None
                ib += 1
                exp = bool(vb)
            if exp != e["verdict"]:
                rec.violation("anyof:verdict-differs-from-a-or-b", dict(wit, check=e))
                break
        if model_target[-1]:
            rec.count("target_reached_runs")
    if len(log) >= 2:
        rec.distinct_add([case["alg"], n, size, case["kind"], hist])
    rec.sample(dict(wit, checks=len(log), total_evaluations=total, last_checks=hist[-3:]), cap=4)
