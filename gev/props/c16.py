"""C16 - elitism keeps the best: top-k selection and monotone best fitness."""

from __future__ import annotations

import random as pyrandom

from gev import core, evo, workload

PROPERTY = "C16"
LEVEL = "exploration"
TECHNIQUE = "runtime monitor: input/output comparison at ElitismStep.apply (identity membership, count, no excluded individual strictly better on independently recomputed direction-aware values) over populations with ties and duplicates; in whole GP runs a recorder tracks the best fitness of every generation whenever the real elitism step received at least one slot; where the step's weights change during the search the elitism share is computed independently from the weights in force"
RULE = (
    "step cases = (population of 2..10 individuals with prescribed fitness values incl. ties, direction, single/multi objective, k in 1..n, list or one-shot iterator); "
    "run cases = GP runs (5-40 generations, both directions, random weights) whose step nests a slot-recording ElitismStep; "
    "distinct_nontrivial = distinct (fitness vector, direction, k, form) step configurations plus distinct (run configuration, generation) pairs with an elitism slot"
)
ASSUMPTIONS = [
    "better/worse is decided on the raw fitness value and the declared direction, recomputed by the monitor (not read from Fitness.maximizing_aggregate)",
    "multi-objective problems use the default aggregate (sum of components, minimised ones negated)",
    "fitness values are finite (no NaN)",
]
PLAN = {
    "quick": {"shards": 8, "shard_timeout": 300, "case_timeout": 30, "steps": 4000, "runs": 100, "max_case_timeouts": 3},
    "thorough": {"shards": 16, "shard_timeout": 3600, "case_timeout": 90, "steps": 700000, "runs": 24000, "max_case_timeouts": 10},
}
THRESHOLDS = {
    "quick": {"runs_with_weights_changing_during_the_search": 5, "generations_whose_weights_in_force_give_elitism_a_slot": 30, "elitism_applications": 1400, "with_ties": 400, "minimising": 400, "iterator_inputs": 300, "multi_objective": 200, "generations_with_elitism_slot": 300, "runs": 50, "with_infinite_values": 200, "with_near_equal_values": 200, "multi_objective_runs": 15, "runs_with_elitism_after_a_sibling": 20, "runs_with_lexicase_sibling": 8, "populations_scored_under_the_opposite_direction_first": 300},
    "thorough": {"elitism_applications": 38000, "generations_with_elitism_slot": 10000},
}


def gen_cases(tier, seed):
    rng = pyrandom.Random(f"c16-{seed}")
    for i in range(PLAN[tier]["steps"]):
        n = rng.randint(2, 10)
        pool = [0, 1, 1, 2, 3, 5, -1, 2.5]
        style = rng.random()
        if style < 0.15:  # infinities are ordinary floats with a total order (division by zero in a fitness function)
            pool = pool + [float("inf"), float("-inf"), float("inf")]
        elif style < 0.3:  # values that only differ far behind the decimal point
            pool = [1e-6, 4e-6, 1.0, 1.000001, 0.99999951, 5e-324, 0.0, -0.0]
        vals = [rng.choice(pool) for _ in range(n)]
        yield {"kind": "step", "n": n, "values": vals, "minimize": rng.random() < 0.5, "k": rng.randint(1, n), "form": rng.choice(["list", "iterator", "list"]), "multi": rng.random() < 0.25, "evaluated": rng.random() < 0.6, "other_direction_first": rng.random() < 0.2, "seed": rng.randrange(10**6)}
    for i in range(PLAN[tier]["runs"]):
        yield {"kind": "run", "pop": rng.choice([3, 4, 5, 8, 10, 20]), "gens": rng.randint(5, 40 if tier == "thorough" else 15), "minimize": rng.random() < 0.5, "weights": [rng.choice([1, 2, 5, 10]), rng.choice([1, 5, 50, 90])], "repr": rng.choice(["tree", "ge"]), "inner": rng.choice(["mut", "cx+mut", "novelty"]), "objectives": 1, "elitism_at": 0, "seed": rng.randrange(10**6)}
    for i in range(max(6, PLAN[tier]["runs"] // 6)):
        # weights that change while the search runs (parameterless.RandomizeParallelStep draws four new ones after every
        # generation): the elitism slice is what the weights IN FORCE give it
        yield {"kind": "run", "pop": rng.choice([10, 20, 30]), "gens": rng.randint(10, 40 if tier == "thorough" else 20), "minimize": rng.random() < 0.5, "weights": [rng.choice([1000, 10**6]), 1000, rng.choice([1000, 10**5]), 10**6], "repr": rng.choice(["tree", "ge"]), "inner": "mut", "objectives": 1, "elitism_at": 0, "randomised": True, "seed": rng.randrange(10**6)}
    for i in range(PLAN[tier]["runs"] // 2):
        # the elitism slice anywhere among its siblings, multi-objective problems, lexicase among the siblings
        nobj = rng.choice([1, 2, 3])
        yield {"kind": "run", "pop": rng.choice([4, 5, 8, 10, 20]), "gens": rng.randint(5, 40 if tier == "thorough" else 12), "minimize": rng.random() < 0.5, "mins": [rng.random() < 0.5 for _ in range(3)], "weights": [rng.choice([1, 2, 5]), rng.choice([2, 5, 9]), rng.choice([1, 3])], "repr": rng.choice(["tree", "ge"]), "inner": rng.choice(["mut", "lexicase+mut", "lexicase+mut", "tournament-r+mut"]) if nobj > 1 else rng.choice(["mut", "cx+mut", "tournament-r+mut"]), "third": rng.choice([None, "novelty", "mut"]), "objectives": nobj, "elitism_at": rng.choice([0, 1, 1, 2]), "seed": rng.randrange(10**6)}


def run_case(case, rec):
    if case["kind"] == "step":
        return run_step(case, rec)
    return run_run(case, rec)


def run_step(case, rec):
    from geneticengine.algorithms.gp.operators.elitism import ElitismStep
    from geneticengine.evaluation.sequential import SequentialEvaluator
    from geneticengine.problems import MultiObjectiveProblem, SingleObjectiveProblem

    g, _ = evo.tiny()
    src = workload.native(case["seed"])
    rep = evo.make_rep("tree", g, src)
    inds = evo.individuals(rep, src, case["n"])
    if len(inds) < case["n"]:
        return
    fit = evo.TableFitness()
    mins = None
    if case["multi"]:
        mins = [case["minimize"], not case["minimize"]]
        prob = MultiObjectiveProblem(mins, fit)
        for ind, v in zip(inds, case["values"]):
            # an invalid program scored inf on EVERY objective (directions are mixed here): its default aggregate is
            # -inf + inf; whatever rank it gets, the individuals with ordinary values must still be ranked among themselves
            second = (float("inf") if v == float("inf") and case["seed"] % 2 else 0.0) if v in (float("inf"), float("-inf")) else float((v * 3) % 2)
            fit.prescribe(ind.get_phenotype(), [float(v), second])
    else:
        prob = SingleObjectiveProblem(fit, minimize=case["minimize"])
        for ind, v in zip(inds, case["values"]):
            fit.prescribe(ind.get_phenotype(), float(v))

    def goodness(ind):  # direction-aware value, recomputed here
        v = fit.table[id(ind.get_phenotype())]
        if case["multi"]:
            return sum((-x if m else x) for x, m in zip(v, mins))
        return -v if case["minimize"] else v

    ev = SequentialEvaluator()
    other = None
    if case.get("other_direction_first") and not case["multi"]:
        # the same individuals were scored before under ANOTHER problem: same fitness function object, opposite direction
        # (a sweep over both directions on a fixed population); that problem stays alive
        other = SingleObjectiveProblem(fit, minimize=not case["minimize"])
        SequentialEvaluator().evaluate(other, inds)
        rec.count("populations_scored_under_the_opposite_direction_first")
    if case["evaluated"]:
        ev.evaluate(prob, inds)
    arg = list(inds) if case["form"] == "list" else iter(list(inds))
    rec.count("elitism_applications")
    rec.count("evaluations")
    if len(set(case["values"])) < len(case["values"]):
        rec.count("with_ties")
    if any(v in (float("inf"), float("-inf")) for v in case["values"]):
        rec.count("with_infinite_values")
    if any(0 < abs(a - b) < 1e-4 for a in case["values"] for b in case["values"] if a not in (float("inf"), float("-inf")) and b not in (float("inf"), float("-inf"))):
        rec.count("with_near_equal_values")
    if case["minimize"]:
        rec.count("minimising")
    if case["form"] == "iterator":
        rec.count("iterator_inputs")
    if case["multi"]:
        rec.count("multi_objective")
    wit = {"values": case["values"], "minimize": case["minimize"], "k": case["k"], "form": case["form"], "multi": case["multi"]}
    try:
        out = list(ElitismStep().apply(prob, ev, rep, src, arg, case["k"], 1))
    except core.CaseTimeout:
        raise
    except BaseException as e:  # noqa
        rec.violation(f"elitism:raises:{type(e).__name__}:{case['form']}", dict(wit, error=core.short(e)))
        return
    ids = [id(i) for i in inds]
    if len(out) != case["k"]:
        rec.violation(f"elitism:count:{case['form']}", dict(wit, yielded=len(out)))
        return
    if any(id(o) not in ids for o in out) or len({id(o) for o in out}) != len(out):
        rec.violation("elitism:not-members-of-input", dict(wit, yielded=len(out)))
        return
    chosen = {id(o) for o in out}
    excluded = [i for i in inds if id(i) not in chosen]
    import math as _m

    if any(_m.isnan(goodness(i)) for i in inds):
        # an aggregate without an order (inf on objectives of opposite directions): judged on the others only
        rec.count("populations_with_an_unordered_aggregate")
        out_j = [o for o in out if not _m.isnan(goodness(o))]
        exc_j = [x for x in excluded if not _m.isnan(goodness(x))]
    else:
        out_j, exc_j = out, excluded
    if exc_j and out_j and min(goodness(o) for o in out_j) < max(goodness(x) for x in exc_j):
        rec.violation(f"elitism:excluded-better-than-included:{'min' if case['minimize'] else 'max'}:{'multi' if case['multi'] else 'single'}", dict(wit, kept=[fit.table[id(o.get_phenotype())] for o in out], dropped=[fit.table[id(x.get_phenotype())] for x in excluded]))
        return
    rec.distinct_add([sorted(case["values"]), case["minimize"], case["k"], case["form"], case["multi"]])
    rec.sample(dict(wit, kept=[fit.table[id(o.get_phenotype())] for o in out]), cap=4)
    _ = other  # kept alive until here


def run_run(case, rec):
    from geneticengine.algorithms.gp.gp import GeneticProgramming
    from geneticengine.algorithms.gp.operators.combinators import ParallelStep, SequenceStep
    from geneticengine.algorithms.gp.operators.crossover import GenericCrossoverStep
    from geneticengine.algorithms.gp.operators.elitism import ElitismStep
    from geneticengine.algorithms.gp.operators.mutation import GenericMutationStep
    from geneticengine.algorithms.gp.operators.novelty import NoveltyStep
    from geneticengine.algorithms.gp.operators.selection import TournamentSelection
    from geneticengine.evaluation.sequential import SequentialEvaluator
    from geneticengine.evaluation.tracker import SingleObjectiveProgressTracker
    from geneticengine.algorithms.gp.operators.selection import LexicaseSelection
    from geneticengine.evaluation.tracker import MultiObjectiveProgressTracker
    from geneticengine.problems import MultiObjectiveProblem, SingleObjectiveProblem

    slots: list = []

    class SlotRecordingElitism(ElitismStep):
        def iterate(self, problem, evaluator, representation, random, population, target_size, generation):
            slots.append((generation, target_size))
            return super().iterate(problem, evaluator, representation, random, population, target_size, generation)

    g, _ = evo.tiny()
    src = workload.native(case["seed"])
    rep = evo.make_rep(case["repr"], g, src)
    nobj = case.get("objectives", 1)
    R = evo.make_recorder_class()
    r = R()
    if nobj == 1:
        fit = evo.TableFitness(modulus=23)
        prob = SingleObjectiveProblem(fit, minimize=case["minimize"])
        tracker = SingleObjectiveProgressTracker(prob, SequentialEvaluator(), recorders=[r])
        mins = None
    else:
        fit = evo.TableFitness(n_objectives=nobj, modulus=23)
        mins = list(case["mins"][:nobj])
        prob = MultiObjectiveProblem(mins, fit)
        tracker = MultiObjectiveProgressTracker(prob, SequentialEvaluator(), recorders=[r])
        rec.count("multi_objective_runs")
    inner = {
        "mut": lambda: SequenceStep(TournamentSelection(2), GenericMutationStep(1.0)),
        "cx+mut": lambda: SequenceStep(TournamentSelection(3), GenericCrossoverStep(0.8), GenericMutationStep(0.7)),
        "novelty": lambda: NoveltyStep(),
        "lexicase+mut": lambda: SequenceStep(LexicaseSelection(), GenericMutationStep(1.0)),
        "tournament-r+mut": lambda: SequenceStep(TournamentSelection(3, with_replacement=True), GenericMutationStep(1.0)),
    }
    siblings = [inner[case["inner"]]()]
    if case.get("third"):
        siblings.append(inner[case["third"]]())
    at = min(case.get("elitism_at", 0), len(siblings))
    siblings.insert(at, SlotRecordingElitism())
    weights = list(case["weights"][: len(siblings)])
    if len(weights) == 2 and at == 0 and "third" not in case:
        pass  # round-1 shape: [elitism, inner] with the case's two weights
    if at:
        rec.count("runs_with_elitism_after_a_sibling")
    if "lexicase" in case["inner"]:
        rec.count("runs_with_lexicase_sibling")
    in_force: dict = {}
    if case.get("randomised"):
        from geneticengine.algorithms.gp.parameterless import RandomizeParallelStep

        class Recording(RandomizeParallelStep):
            def iterate(self, problem, evaluator, representation, random, population, target_size, generation):
                in_force[generation] = (list(self.weights), target_size)
                return super().iterate(problem, evaluator, representation, random, population, target_size, generation)

        siblings = [SlotRecordingElitism(), NoveltyStep(), inner["mut"](), inner["cx+mut"]()]
        step = Recording(siblings, weights=list(case["weights"]))
        rec.count("runs_with_weights_changing_during_the_search")
    else:
        step = ParallelStep(siblings, weights=weights)
    gp = GeneticProgramming(prob, evo.check_count_budget(case["gens"]), rep, src, tracker=tracker, population_size=case["pop"], step=step)
    wit = {k: case.get(k) for k in ("pop", "gens", "minimize", "weights", "repr", "inner", "third", "objectives", "elitism_at")}
    if mins is not None:
        wit["minimize"] = mins
    try:
        gp.search()
    except core.CaseTimeout:
        raise
    except BaseException as e:  # noqa
        rec.violation(f"run:raises:{type(e).__name__}@{core.exc_site(e)}", dict(wit, error=core.short(e)))
        return
    rec.count("runs")
    best: dict = {}
    for ind, _, gen, _ in r.events:
        v = fit.pure(ind.get_phenotype())
        good = (-v if case["minimize"] else v) if mins is None else sum((-x if m else x) for x, m in zip(v, mins))
        best[gen] = good if gen not in best else max(best[gen], good)
    slot_of = {gen: k for gen, k in slots}
    for gen, (ws, n) in sorted(in_force.items()):
        # "the size of each slice is given by the proportion of its weight": an elitism share clearly above one individual
        # (1.5 and more, whatever the rounding) is at least one slot
        if sum(ws) > 0 and ws[0] * n / sum(ws) >= 1.5:
            rec.count("generations_whose_weights_in_force_give_elitism_a_slot")
            if slot_of.get(gen, 0) < 1:
                rec.violation("elitism:no-slot-although-the-weights-in-force-give-it-one", dict(wit, generation=gen, weights_in_force=ws, target=n, share=round(ws[0] * n / sum(ws), 2)))
                break
    for gen in sorted(best):
        if gen == 0 or gen - 1 not in best:
            continue
        if slot_of.get(gen, 0) >= 1:
            rec.count("generations_with_elitism_slot")
            rec.count("evaluations")
            rec.distinct_add([wit, gen])
            if best[gen] < best[gen - 1]:
                rec.violation(f"best-fitness-worsened:{('min' if case['minimize'] else 'max') if mins is None else 'multi'}", dict(wit, generation=gen, before=best[gen - 1], after=best[gen], elitism_slots=slot_of.get(gen)))
        else:
            rec.count("generations_without_elitism_slot")
    rec.sample(dict(wit, best_per_generation=[best[k] for k in sorted(best)][:12], slots=sorted(set(k for _, k in slots))), cap=3)
