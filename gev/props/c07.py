"""C07 - genotype-to-phenotype mapping is a pure function of the genotype."""

from __future__ import annotations

import random as pyrandom

from gev import core, grammars, sources, stream, workload

PROPERTY = "C07"
LEVEL = "exploration"
TECHNIQUE = "runtime monitor: repeated mapping of every genotype with interleaved draws on the shared source (structural comparison of the programs) plus a tripwire RandomSource that counts every primitive call on the search's shared random stream inside mapping windows (dSGE extension draws told apart by a flag set around Genotype.get); between re-mappings the decider object is used elsewhere and 'the next experiment' is prepared over the same classes"
RULE = (
    "cases = (generated grammar with/without refined fields, genotype representation, decider, seed, op sequence); each genotype reached by "
    "create/mutate/crossover is mapped 3 times with k random draws on the shared source in between; "
    "distinct_nontrivial = distinct (representation, canonical program) pairs mapped repeatedly"
)
ASSUMPTIONS = [
    "the shared stream is the RandomSource handed to the representation's decider / to create_genotype (dSGE keeps it in the genotype)",
    "dSGE may draw from the shared stream only inside Genotype.get (on-demand extension) and only while a gene is missing; a re-mapping draws nothing",
    "programs are compared by canonical text (class names, field values)",
    "a third of the grammars declare their fields as strings (postponed evaluation), so the library resolves them anew on every expansion",
]
PLAN = {
    "quick": {"shards": 8, "shard_timeout": 400, "case_timeout": 25, "grammars": 200, "max_case_timeouts": 6},
    "thorough": {"shards": 16, "shard_timeout": 3600, "case_timeout": 40, "grammars": 16000, "max_case_timeouts": 160},
}
THRESHOLDS = {
    "quick": {"remapped:ge": 300, "remapped:sge": 300, "remapped:dsge": 300, "remapped:stack": 60, "genotypes_with_refined_fields": 300, "dsge_extension_draws": 100, "after_variation": 300, "remapped_with_string_annotations:dsge": 80, "decider_used_elsewhere_between_mappings": 300, "next_experiment_prepared_between_mappings": 200, "remapped_with_string_annotations:ge": 80},
    "thorough": {"remapped:ge": 5000, "remapped:sge": 5000, "remapped:dsge": 5000, "remapped:stack": 800},
}

REPRS = ["ge", "sge", "dsge", "stack"]


def gen_cases(tier, seed):
    rng = pyrandom.Random(f"c07-{seed}")
    for gi, desc in enumerate(grammars.family(seed, PLAN[tier]["grammars"], "general")):
        if gi % 3 == 2 and not desc.get("python"):
            # the same classes declared with STRING annotations (postponed evaluation, quoted forward references): the library
            # resolves them on every expansion, so every refinement is a new object each time
            desc = dict(desc, _string_annotations=True, name=desc["name"] + "~str")
        variants = [(desc, REPRS)]
        if str(desc.get("name", "")).startswith("fx_") and not desc.get("_string_annotations") and not desc.get("python"):
            # every hand-written shape also under string annotations, for the representations that key genes by type
            variants.append((dict(desc, _string_annotations=True, name=desc["name"] + "~str"), ["dsge", "sge"]))
        for desc, reprs in variants:
          for rk in reprs:
            yield {
                "desc": desc,
                "repr": rk,
                "decider": rng.choice(workload.DECIDERS) if rk in ("ge", "sge") else "own",
                "extra_depth": rng.choice([0, 1, 2, 3]),
                "seed": rng.randrange(10**6),
                "nops": rng.randint(6, 14),
            }
    rng2 = pyrandom.Random(f"c07-loose-{seed}")  # (own stream: the cases above keep their seeds)
    for k in range(16 if tier == "quick" else 400):
        rk = ["stack", "stack", "ge", "sge"][k % 4]
        yield {"desc": W_LOOSE, "repr": rk, "decider": "progressive" if rk != "stack" else "own", "extra_depth": rng2.choice([1, 2, 3]), "seed": rng2.randrange(10**6), "nops": 14, "next_experiment_share": 0.5}


W_LOOSE = {  # a WEIGHTED grammar with weighted classes that are productions of no rule (used only as field types): what the
    # first grammar answers for them must stay what was declared when it was extracted (s7-C07)
    "name": "w_loose_classes",
    "abstracts": [{"name": "Expr", "parent": None, "style": "abc"}],
    "prods": [
        {"name": "Lit", "parent": "Expr", "fields": [["v", ["ann", ["int"], ["IntRange", 0, 9]]]], "weight": 2},
        {"name": "At", "parent": "Expr", "fields": [["p", ["ref", "Point"]]]},
        {"name": "Add", "parent": "Expr", "fields": [["l", ["ref", "Expr"]], ["r", ["ref", "Expr"]]]},
        {"name": "Tag", "parent": "Expr", "fields": [["t", ["union", ["ref", "Point"], ["ref", "Mark"]]], ["e", ["ref", "Expr"]]]},
        {"name": "Point", "parent": None, "fields": [["x", ["ann", ["int"], ["IntRange", 0, 3]]], ["y", ["bool"]]], "weight": 3},
        {"name": "Mark", "parent": None, "fields": [["k", ["bool"]]], "weight": 1},
    ],
    "start": "Expr",
}


def has_refined(desc):
    return '"ann"' in str(desc).replace("'", '"') or '"dep"' in str(desc).replace("'", '"')


def run_case(case, rec):
    del grammars.CALLER_LISTS[:]
    ctx = stream.open_case(case, rec)
    if ctx is None:
        return
    try:
        _run(ctx, case, rec)
    finally:
        ctx.built.dispose()


def _run(ctx, case, rec):
    from geneticengine.representations.grammatical_evolution import dynamic_structured_ge as D

    src = sources.RecordingSource(case["seed"])
    in_get = [0]
    orig_get = D.Genotype.get

    def flagged_get(self, ty, n):
        in_get[0] += 1
        try:
            return orig_get(self, ty, n)
        finally:
            in_get[0] -= 1

    # tag every shared-stream call with "inside Genotype.get?"
    tags = []
    orig_randint = sources.RecordingSource.randint

    class Src(sources.RecordingSource):
        def randint(self, a, b):
            tags.append(in_get[0] > 0)
            return orig_randint(self, a, b)

    src.__class__ = Src
    D.Genotype.get = flagged_get
    try:
        dk = case["decider"] if case["decider"] != "own" else "maxdepth"
        try:
            rep = workload.make_repr(case["repr"], ctx.grammar, dk, ctx.max_depth, src, gene_length=64)
        except BaseException:  # noqa
            rec.count("config_rejected")
            return
        rng = pyrandom.Random(case["seed"])
        pool = []
        kind = case["repr"]
        refined = has_refined(case["desc"])

        spins = [0]

        def mapping(geno, nth):
            before_calls, before_tags = len(src.calls), len(tags)
            state = src.random.getstate()
            try:
                if kind == "stack":  # the stack mapper can spin on a gene cycle (no listed property): bound each mapping
                    if spins[0] >= 2:
                        prog = workload.StackMappingSpun()
                    else:
                        try:
                            with core.time_limit(1.0):
                                prog = rep.genotype_to_phenotype(geno)
                        except core.CaseTimeout:
                            spins[0] += 1
                            prog = workload.StackMappingSpun()
                else:
                    prog = rep.genotype_to_phenotype(geno)
            except core.CaseTimeout:
                raise
            except BaseException as e:  # noqa
                prog = e
            used = src.calls[before_calls:]
            outside = [c for c, t in zip(used, tags[before_tags:]) if not t] if kind == "dsge" else used
            advanced = src.random.getstate() != state
            return prog, used, outside, advanced

        def exercise(geno, origin):
            wit = {"grammar": case["desc"]["name"], "repr": kind, "decider": case["decider"], "origin": origin, "refined_fields": refined}
            p1, used1, outside1, adv1 = mapping(geno, 1)
            if isinstance(p1, BaseException):
                rec.count("map_raised")
                return
            if kind == "dsge":
                rec.count("dsge_extension_draws", len(used1) - len(outside1))
            if outside1 or (adv1 and kind != "dsge"):
                rec.violation(f"shared-stream-used-while-mapping:{kind}:{'refined' if refined else 'unrefined'}", dict(wit, calls=[core.short(c, 60) for c in outside1[:4]], n=len(outside1)))
            for nth in (2, 3):
                for _ in range(rng.randrange(0, 6)):
                    src.enabled = False
                    src.randint(0, 10**6)  # other users of the shared stream in between
                    src.enabled = True
                if kind in ("ge", "sge") and rng.random() < 0.5 and hasattr(rep, "decider"):
                    # "at any later time": the decider object handed to the representation is used elsewhere in between
                    # (a script that also creates a few trees with it); nothing of that may reach a later mapping
                    from geneticengine.representations.tree.treebased import random_node

                    src.enabled = False
                    try:
                        random_node(src, ctx.grammar, ctx.grammar.starting_symbol, rep.decider)
                        rec.count("decider_used_elsewhere_between_mappings")
                    except core.CaseTimeout:
                        raise
                    except BaseException:  # noqa
                        pass
                    finally:
                        src.enabled = True
                if rng.random() < case.get("next_experiment_share", 0.15) and not case["desc"].get("_string_annotations"):
                    # "at any later time": the script prepares its NEXT experiment - the option lists it once handed to
                    # VarRange / IntList get one more entry (an option that was already there, so every value stays valid),
                    # a class gets a weight, and the next experiment extracts a grammar of its own. The first grammar, its
                    # representation and its genotypes are not touched.
                    for lst in grammars.CALLER_LISTS:
                        if lst:
                            lst.append(lst[0])
                    try:
                        from geneticengine.grammar.decorators import weight as declare_weight

                        prods = [c for c in ctx.built.classes if isinstance(c, type) and not getattr(c, "__abstractmethods__", None) and c in ctx.grammar.all_nodes and c not in ctx.grammar.alternatives]
                        in_a_rule = {p for ps in ctx.grammar.alternatives.values() for p in ps}
                        loose = [c for c in prods if c not in in_a_rule]  # a concrete start symbol, a class used only as a field type
                        if loose and rng.random() < 0.8:
                            # such a class is normalised in no rule: what the first grammar answers for it must still be what
                            # was declared when IT was extracted (the stack mapper weighs every symbol it may push)
                            for c in loose:  # all of them, and far from what they declared: the stack mapper weighs them all
                                declare_weight(rng.choice([0.01, 25]))(c)
                            rec.count("next_experiment_reweighted_a_class_outside_every_rule")
                            if ctx.grammar.weights is not None:
                                rec.count(f"next_experiment_reweighted_a_class_outside_every_rule:weighted-grammar:{kind}")
                        elif prods:
                            declare_weight(rng.choice([2, 5, 10]))(rng.choice(prods))
                        grammars.extract(ctx.built)
                        rec.count("next_experiment_prepared_between_mappings")
                    except core.CaseTimeout:
                        raise
                    except BaseException:  # noqa - the next experiment's own fate is not judged here
                        pass
                pn, usedn, outsiden, advn = mapping(geno, nth)
                rec.count(f"remapped:{kind}")
                rec.count("evaluations")
                if origin != "create":
                    rec.count("after_variation")
                if isinstance(pn, workload.StackMappingSpun):
                    # the harness's own wall-clock guard around the stack mapper (or its 'this family spins' switch) cut the
                    # mapping short: nothing was observed, nothing is judged (a loaded machine must not produce a verdict)
                    rec.count("remappings_not_judged:spin_guard")
                    continue
                if isinstance(pn, BaseException):
                    rec.violation(f"remapping-raises:{kind}:{type(pn).__name__}", dict(wit, error=core.short(pn)))
                    continue
                if usedn or advn:
                    rec.violation(f"shared-stream-used-while-remapping:{kind}:{'refined' if refined else 'unrefined'}", dict(wit, calls=[core.short(c, 60) for c in usedn[:4]], n=len(usedn)))
                a, b = ctx.model.canon(p1), ctx.model.canon(pn)
                if a != b:
                    rec.violation(f"remapping-differs:{kind}:{'refined' if refined else 'unrefined'}", dict(wit, first=core.short(a, 250), again=core.short(b, 250), nth=nth))
                else:
                    rec.distinct_add([kind, a])
            if refined:
                rec.count("genotypes_with_refined_fields")
            if case["desc"].get("_string_annotations"):
                rec.count(f"remapped_with_string_annotations:{kind}")
            rec.sample({"grammar": case["desc"]["name"], "repr": kind, "origin": origin, "program": ctx.model.canon(p1)[:200], "shared_draws_first_mapping": len(used1)})

        for _ in range(3):
            try:
                g = rep.create_genotype(src)
            except BaseException:  # noqa
                rec.count("op_raised")
                continue
            pool.append(g)
            exercise(g, "create")
        if not pool:
            return
        for _ in range(case["nops"]):
            try:
                if rng.random() < 0.5:
                    outs = [rep.mutate(src, rng.choice(pool))]
                    origin = "mutate"
                else:
                    outs = list(rep.crossover(src, rng.choice(pool), rng.choice(pool)))
                    origin = "crossover"
            except core.CaseTimeout:
                raise
            except BaseException:  # noqa
                rec.count("op_raised")
                continue
            for o in outs:
                pool.append(o)
                exercise(o, origin)
    finally:
        D.Genotype.get = orig_get
