"""Confirms an independently written breaking change and files it under /verif/seeded/<name>/.

    python -m gev.seedkeep <worktree> <property> <name> [--suite] [--checks C01,C03]

Steps (nothing touches /repo): diff of the worktree -> patch.diff; demonstration must fail WITH the change and pass
WITHOUT it (patch reversed in the worktree); optionally the repository's own suite is run in the worktree; the named
checks (default: the property's own quick check) are run with GEV_REPO_ROOT=<worktree>; meta.json records it all."""

from __future__ import annotations

import json
import os
import shutil
import subprocess
import sys
import time

from gev import core


def sh(cmd, cwd, env=None, timeout=3600):
    return subprocess.run(cmd, cwd=cwd, env=env, capture_output=True, text=True, timeout=timeout)


def main(argv):
    wt, prop, name = argv[0], argv[1], argv[2]
    suite = "--suite" in argv
    checks = [prop]
    tier = "quick"
    for a in argv[3:]:
        if a.startswith("--checks="):
            checks = a.split("=", 1)[1].split(",")
        if a.startswith("--tier="):
            tier = a.split("=", 1)[1]
    out = core.VERIF / "seeded" / name
    out.mkdir(parents=True, exist_ok=True)
    env = dict(os.environ, PYTHONPATH=wt, PYTHONHASHSEED="0")
    diff = sh(["git", "-C", wt, "diff"], wt).stdout
    if not diff.strip():
        print("no change in", wt)
        return 2
    (out / "patch.diff").write_text(diff)
    for f in ("demo_break.py", "SEED_NOTES.md"):
        if os.path.exists(os.path.join(wt, f)):
            shutil.copy(os.path.join(wt, f), out / f)
    meta = {"property": prop, "worktree_base": sh(["git", "-C", wt, "rev-parse", "HEAD"], wt).stdout.strip(), "ran": []}
    # demonstration with / without the change
    t0 = time.monotonic()
    with_change = sh([core.PY, "demo_break.py"], wt, env, 900)
    meta["demo_with_change_exit"] = with_change.returncode
    meta["demo_with_change_tail"] = (with_change.stdout + with_change.stderr)[-400:]
    # (not `git stash`: the stash is shared by every worktree of the repository, and seeding agents work in siblings)
    sh(["git", "-C", wt, "apply", "-R", str(out / "patch.diff")], wt)
    try:
        without = sh([core.PY, "demo_break.py"], wt, env, 900)
    finally:
        sh(["git", "-C", wt, "apply", str(out / "patch.diff")], wt)
    meta["demo_without_change_exit"] = without.returncode
    meta["ran"].append(f"PYTHONPATH=<worktree> python demo_break.py with the change (exit {with_change.returncode}) and with it reversed (exit {without.returncode}); {time.monotonic() - t0:.0f}s")
    meta["demo_confirmed"] = with_change.returncode != 0 and without.returncode == 0
    if suite:
        t0 = time.monotonic()
        r = sh([core.PY, "-m", "pytest", "-q", "-p", "no:cacheprovider", "--timeout=900", "-n", "8", "tests"], wt, env, 3000)
        tail = r.stdout.strip().splitlines()[-1] if r.stdout.strip() else r.stderr[-200:]
        meta["suite"] = tail
        meta["suite_passed"] = r.returncode == 0
        meta["ran"].append(f"PYTHONPATH=<worktree> pytest -n 8 tests -> {tail} ({time.monotonic() - t0:.0f}s)")
    caught = {}
    for c in checks:
        r = sh([str(core.VERIF / "check"), c, "--tier", tier], str(core.VERIF), dict(os.environ, GEV_REPO_ROOT=wt, GEV_NO_EVIDENCE="1"), 3000)
        lines = [ln for ln in r.stdout.splitlines() if ln.startswith("VIOLATION")]
        caught[c] = {"exit": r.returncode, "tier": tier, "mechanisms": [ln.split("mechanism=")[-1] for ln in lines][:6]}
        meta["ran"].append(f"GEV_REPO_ROOT=<worktree> ./check {c} --tier {tier} -> exit {r.returncode}")
    meta["checks"] = caught
    old = {}
    if (out / "meta.json").exists():
        old = json.load(open(out / "meta.json"))
    for k in ("needs_to_manifest", "what", "suite", "suite_passed", "detection_history", "origin"):
        if k in old and k not in meta:
            meta[k] = old[k]
    ann_file = core.VERIF / "seeded" / "annotations.json"
    if ann_file.exists():
        meta.update(json.load(open(ann_file)).get(name, {}))
    json.dump(meta, open(out / "meta.json", "w"), indent=1)
    print(name, "demo_confirmed=", meta["demo_confirmed"], "suite=", meta.get("suite"), {c: (v["exit"], v["mechanisms"][:2]) for c, v in caught.items()})
    return 0


if __name__ == "__main__":
    sys.exit(main(sys.argv[1:]))
