"""The grammars shipped with the library (geml.grammars.*) and the hierarchies defined by its tests,
as (name, classes, start symbol) triples."""

from __future__ import annotations

import importlib
import pkgutil

from gev import core, refmodel

core.setup_paths()


def shipped_modules():
    import geml.grammars as G

    names = []
    for m in pkgutil.walk_packages(G.__path__, "geml.grammars."):
        names.append(m.name)
    return sorted(names)


def corpus():
    """Yields (label, classes, start). One entry per abstract root type per module group."""
    mods = []
    for n in shipped_modules():
        try:
            mods.append(importlib.import_module(n))
        except Exception:  # noqa
            continue
    classes = []
    for m in mods:
        for v in vars(m).values():
            if isinstance(v, type) and (v.__module__ or "").startswith("geml.grammars") and v not in classes:
                classes.append(v)
    roots = [c for c in classes if refmodel.is_abs(c) and not any(refmodel.is_abs(b) for b in c.__bases__ if isinstance(b, type) and b in classes)]
    for r in roots:
        subs = [c for c in classes if c is not r]
        yield (f"shipped:{r.__module__.split('.')[-1]}.{r.__name__}", subs, r)
    # per-module variants (only the classes of one module + what they inherit from)
    for m in mods:
        own = [v for v in vars(m).values() if isinstance(v, type) and v.__module__ == m.__name__]
        for r in roots:
            prods = [c for c in own if issubclass(c, r) and c is not r]
            if len(prods) >= 2:
                yield (f"shipped:{m.__name__.split('.')[-1]}->{r.__name__}", prods, r)
