"""Runs one shard of a property driver: python -m gev.shard PROP TIER SEED K N OUT [--replay file]."""

from __future__ import annotations

import faulthandler
import importlib
import json
import sys
import time
import traceback

from gev import core


def main(argv):
    prop, tier, seed, k, n, out = argv[0], argv[1], int(argv[2]), int(argv[3]), int(argv[4]), argv[5]
    replay = argv[7] if len(argv) > 7 and argv[6] == "--replay" else None
    core.setup_paths()
    faulthandler.enable()
    rec = core.Rec(prop)
    try:
        drv = importlib.import_module(f"gev.props.{prop.lower()}")
        plan = drv.PLAN[tier]
        if hasattr(drv, "setup"):
            drv.setup(rec)
    except BaseException as e:  # import of the tree failed: inconclusive, never a verdict
        rec.note_inconclusive(f"driver/library import failed: {type(e).__name__}: {e}")
        traceback.print_exc()
        json.dump(rec.dump(), open(out, "w"), default=str)
        return 0
    budget = plan.get("shard_budget_s")
    t0 = time.monotonic()
    if replay:
        cases = [(0, json.load(open(replay))["case"])]
        k, n = 0, 1
    else:
        cases = enumerate(drv.gen_cases(tier, seed))
    for idx, case in cases:
        if idx % n != k:
            continue
        if budget and time.monotonic() - t0 > budget:
            rec.count("cases_skipped_time_budget")
            continue
        rec.case = case
        rec.count("cases")
        marks = {m: (v["count"], len(v["witnesses"])) for m, v in rec.violations.items()}
        core.outer_fired = False
        try:
            with core.time_limit(plan.get("case_timeout", 30)):
                drv.run_case(case, rec)
            if core.outer_fired:  # the watchdog fired, something swallowed it and the case ran to its end: same thing
                raise core.CaseTimeout()
        except core.CaseTimeout:
            rec.count("case_timeouts")
            # a case the wall-clock watchdog cut short is NOT JUDGED: the interrupt may have landed inside a library call
            # the monitor makes on its own behalf (a mapping before a snapshot), so what it recorded in this case is
            # withdrawn (found under load: a dSGE mapping cut short left a half-extended genotype that the next mapping
            # 'modified')
            for m in list(rec.violations):
                c, w = marks.get(m, (0, 0))
                if rec.violations[m]["count"] != c:
                    rec.count("violations_withdrawn_case_timed_out", rec.violations[m]["count"] - c)
                if c == 0:
                    del rec.violations[m]
                else:
                    rec.violations[m]["count"] = c
                    del rec.violations[m]["witnesses"][w:]
            lab = {k: (v.get("name") if isinstance(v, dict) else v) for k, v in case.items() if k in ("desc", "repr", "decider", "via", "offset", "kind", "seed", "alg")} if isinstance(case, dict) else str(case)[:80]
            rec.set_add("timed_out_cases", lab)
            if hasattr(drv, "on_timeout"):
                drv.on_timeout(case, rec)
        except BaseException as e:  # harness bug or unexpected library behaviour outside a monitor
            if isinstance(e, KeyboardInterrupt):
                raise
            rec.count("case_harness_errors")
            rec.note_inconclusive(f"harness error in case: {type(e).__name__}: {core.short(e, 200)} @ {core.exc_site(e)}")
            if rec.counters["case_harness_errors"] <= 3:
                traceback.print_exc()
    rec.case = None
    if hasattr(drv, "teardown"):
        drv.teardown(rec)
    json.dump(rec.dump(), open(out, "w"), default=str)
    return 0


if __name__ == "__main__":
    sys.exit(main(sys.argv[1:]))
