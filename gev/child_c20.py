"""Child process for C20: a real search with a CSVSearchRecorder, with markers after each completed
registration and optional source-free failpoints (os._exit at the n-th line event inside the recorder / tracker).

usage: python -m gev.child_c20 CSV SIDE SEED N_EVALS OBJECTIVES ONLY_BEST ALG [FAILPOINT_N]
"""

from __future__ import annotations

import os
import sys

from gev import core

core.setup_paths()


def main(argv):
    csv_path, side, seed, n_evals, nobj, only_best, alg = argv[0], argv[1], int(argv[2]), int(argv[3]), int(argv[4]), argv[5] == "1", argv[6]
    failpoint = int(argv[7]) if len(argv) > 7 else None
    from geneticengine.algorithms.gp.gp import GeneticProgramming
    from geneticengine.algorithms.random_search import RandomSearch
    from geneticengine.evaluation import recorder as R
    from geneticengine.evaluation import tracker as T
    from geneticengine.evaluation.budget import EvaluationBudget
    from geneticengine.evaluation.sequential import SequentialEvaluator
    from geneticengine.problems import MultiObjectiveProblem, SingleObjectiveProblem

    from gev import evo, workload

    g, _ = evo.tiny()
    src = workload.native(seed)
    rep = evo.make_rep("tree", g, src)

    def fs(p):
        return float(evo.stable_hash(evo.text(p)) % 17)

    def fm(p):
        h = evo.stable_hash(evo.text(p))
        return [float((h >> (4 * i)) % 11) for i in range(nobj)]

    prob = SingleObjectiveProblem(fs) if nobj == 1 else MultiObjectiveProblem([i % 2 == 0 for i in range(nobj)], fm)

    side_fd = os.open(side, os.O_WRONLY | os.O_APPEND | os.O_CREAT)
    count = [0]

    class Marked(R.CSVSearchRecorder):
        def register(self, tracker, individual, problem, is_best=False):
            super().register(tracker, individual, problem, is_best)
            if not self.only_record_best_individuals or is_best:
                count[0] += 1
                os.write(side_fd, f"REG {count[0]}\n".encode())
                os.write(2, f"GEVREG {count[0]}\n".encode())

    if failpoint is not None:
        mon = sys.monitoring
        tool = 4
        mon.use_tool_id(tool, "gev-failpoint")
        codes = [R.CSVSearchRecorder.register.__code__, R.CSVSearchRecorder.__init__.__code__, T.SingleObjectiveProgressTracker.post_process.__code__, T.MultiObjectiveProgressTracker.evaluate.__code__, Marked.register.__code__]
        seen = [0]

        def on_line(code, line):
            seen[0] += 1
            if seen[0] == failpoint:
                os.write(2, f"GEVKILL at {code.co_name}:{line}\n".encode())
                os._exit(9)

        mon.register_callback(tool, mon.events.LINE, on_line)
        for c in codes:
            mon.set_local_events(tool, c, mon.events.LINE)

    rec = Marked(csv_path, prob, only_record_best_individuals=only_best, extra_fields={"Nodes": lambda t, i, p: i.get_phenotype().gengy_nodes})
    tr = (T.SingleObjectiveProgressTracker if nobj == 1 else T.MultiObjectiveProgressTracker)(prob, SequentialEvaluator(), recorders=[rec])
    if alg == "gp":
        a = GeneticProgramming(prob, EvaluationBudget(n_evals), rep, src, tracker=tr, population_size=6)
    else:
        a = RandomSearch(prob, EvaluationBudget(n_evals), rep, src, tracker=tr)
    a.search()
    os.write(2, b"GEVDONE\n")
    return 0


if __name__ == "__main__":
    sys.exit(main(sys.argv[1:]))
