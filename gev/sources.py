"""Adversarial random sources (the library's extension API: subclasses of RandomSource)."""

from __future__ import annotations

from gev import core

core.setup_paths()

from geneticengine.random.sources import NativeRandomSource, RandomSource  # noqa: E402


class NotFiniteChoice(Exception):
    pass


class ScriptedSource(RandomSource):
    """Answers randint from a trail; past its end answers `min` and records the domain, so that an
    odometer over the recorded domains enumerates EVERY sequence of random decisions."""

    MAX_DOMAIN = 64

    def __init__(self, trail=None):
        self.trail = list(trail or [])
        self.pos = 0
        self.log: list[tuple[int, int, int]] = []  # (value, lo, hi)

    def randint(self, min: int, max: int) -> int:
        if max < min:
            raise ValueError(f"empty range randint({min},{max})")
        if max - min + 1 > self.MAX_DOMAIN:
            raise NotFiniteChoice(f"domain {min}..{max}")
        if self.pos < len(self.trail):
            v = self.trail[self.pos]
            if not (min <= v <= max):  # the program took another path than the trail was recorded on
                raise RuntimeError("scripted trail no longer matches the decision tree (non-deterministic code under test)")
        else:
            v = min
        self.pos += 1
        self.log.append((v, min, max))
        return v

    def random_float(self, min: float, max: float) -> float:
        raise NotFiniteChoice("random_float")


def next_trail(log):
    """Odometer step: the next decision sequence after the one recorded in `log`, or None."""
    trail = [list(x) for x in log]
    while trail:
        v, lo, hi = trail[-1]
        if v < hi:
            trail[-1][0] = v + 1
            return [x[0] for x in trail]
        trail.pop()
    return None


def enumerate_runs(fn, max_runs=200000):
    """Calls fn(source) for every decision sequence. Yields (result_or_exception, log).
    Stops (returning False through the generator's .complete flag) when max_runs is hit."""
    trail = []
    runs = 0
    while trail is not None:
        src = ScriptedSource(trail)
        try:
            res = fn(src)
        except NotFiniteChoice:
            raise
        except Exception as e:  # noqa
            res = e
        yield res, src.log
        runs += 1
        if runs >= max_runs:
            raise TooManyRuns(runs)
        trail = next_trail(src.log)


class TooManyRuns(Exception):
    pass


class RecordingSource(NativeRandomSource):
    """A native source that logs every primitive call (name, args, result)."""

    def __init__(self, seed=0):
        super().__init__(seed)
        self.calls: list = []
        self.enabled = True

    def randint(self, min, max):
        v = super().randint(min, max)
        if self.enabled:
            self.calls.append(("randint", min, max, v))
        return v

    def random_float(self, min, max):
        v = super().random_float(min, max)
        if self.enabled:
            self.calls.append(("random_float", min, max, v))
        return v

    def normalvariate(self, mean, sigma):
        v = super().normalvariate(mean, sigma)
        if self.enabled:
            self.calls.append(("normalvariate", mean, sigma, v))
        return v


class ExtremeSource(NativeRandomSource):
    """Returns the bounds (min, max, min+1, max-1) half of the time: boundary-biased draws."""

    def randint(self, min, max):
        c = self.random.random()
        if c < 0.5:
            cands = [min, max, min + 1 if min + 1 <= max else min, max - 1 if max - 1 >= min else max]
            return cands[self.random.randrange(4)]
        return self.random.randint(min, max)

    def random_float(self, min, max):
        c = self.random.random()
        if c < 0.3:
            return float(min) if self.random.random() < 0.5 else float(max)
        return self.random.random() * (max - min) + min

    def normalvariate(self, mean, sigma):
        return self.random.normalvariate(mean, sigma)
