"""Child for C13, run AS A SCRIPT (python gev/child_c13_main.py <seed>): its grammar classes and its fitness function live
in __main__, the way a user's experiment script defines them. Prints what the parallel and the sequential evaluator
recorded for the same individuals, for two batches separated by a change of a module-level setting."""

import copy
import json
import os
import sys
from dataclasses import dataclass

sys.path.insert(0, os.path.dirname(os.path.dirname(os.path.abspath(__file__))))
from gev import core  # noqa: E402

core.setup_paths()

from geneticengine.evaluation.parallel import ParallelEvaluator  # noqa: E402
from geneticengine.evaluation.sequential import SequentialEvaluator  # noqa: E402
from geneticengine.grammar.grammar import extract_grammar  # noqa: E402
from geneticengine.problems import SingleObjectiveProblem  # noqa: E402
from geneticengine.random.sources import NativeRandomSource  # noqa: E402
from geneticengine.representations.tree.initializations import MaxDepthDecider  # noqa: E402
from geneticengine.representations.tree.treebased import TreeBasedRepresentation  # noqa: E402
from geneticengine.solutions.individual import Individual  # noqa: E402


@dataclass
class Leaf:  # plain dataclasses, no ABC: the shape of examples/binary.py, multi_target_lexicase.py, coevolution_dna.py
    v: int


@dataclass
class Pair:
    a: Leaf
    b: Leaf


class Lang:  # grammar classes that are ATTRIBUTES OF ANOTHER CLASS of the script (qualified name `Lang.Lit`)
    from abc import ABC as _ABC

    class Expr(_ABC):
        pass

    @dataclass
    class Lit(Expr):
        v: int

    @dataclass
    class Flag(Expr):
        on: bool


def nested_fitness(p):
    if not isinstance(p, Lang.Expr):
        return -5000.0
    if type(p) is Lang.Lit:
        return float(p.v % 7)
    if type(p) is Lang.Flag:
        return 10.0 if p.on else 20.0
    return -1000.0


TARGET = 5


def fitness(p):
    if not isinstance(p, Pair):  # what isinstance / match / == on the node classes see inside a worker
        return 1000.0
    return float(abs(p.a.v % 10 + p.b.v % 10 - TARGET))


def batch(rep, src, n):
    inds = [Individual(rep.create_genotype(src), rep) for _ in range(n)]
    twin = copy.deepcopy(inds)
    prob = SingleObjectiveProblem(fitness, minimize=True)
    ParallelEvaluator().evaluate(prob, inds)
    SequentialEvaluator().evaluate(prob, twin)
    return [i.get_fitness(prob).fitness_components[0] for i in inds], [i.get_fitness(prob).fitness_components[0] for i in twin]


def make_local_grammar():
    """A grammar factory: the classes are made inside a function and derive from ABC - the shape of the library's own
    geml grammars (make_var, make_grammar) and of grammars declared inside a test function."""
    from abc import ABC

    class Expr(ABC):
        pass

    @dataclass
    class Lit(Expr):
        v: int

    @dataclass
    class Add(Expr):
        l: Expr
        r: Expr

    def ev(e):
        if isinstance(e, Lit):
            return float(e.v % 7)
        if isinstance(e, Add):
            return ev(e.l) + ev(e.r)
        return -1000.0

    return extract_grammar([Lit, Add], Expr), ev


def local_batch(seed):
    g, ev = make_local_grammar()
    src = NativeRandomSource(seed)
    rep = TreeBasedRepresentation(g, MaxDepthDecider(src, g, 4))
    inds = [Individual(rep.create_genotype(src), rep) for _ in range(3 + seed % 3)]
    twin = copy.deepcopy(inds)
    prob = SingleObjectiveProblem(ev, minimize=False)
    SequentialEvaluator().evaluate(prob, twin)
    seq = [i.get_fitness(prob).fitness_components[0] for i in twin]
    try:
        ParallelEvaluator().evaluate(prob, inds)
        par = [i.get_fitness(prob).fitness_components[0] for i in inds]
    except BaseException as e:  # noqa
        par = f"raised {type(e).__name__}: {str(e)[:160]}"
    return par, seq


def nested_batch(seed):
    """Classes nested in another class of the script (Lang.Lit), asked isinstance / type() by the fitness function."""
    g = extract_grammar([Lang.Lit, Lang.Flag], Lang.Expr)
    src = NativeRandomSource(seed)
    rep = TreeBasedRepresentation(g, MaxDepthDecider(src, g, 4))
    inds = [Individual(rep.create_genotype(src), rep) for _ in range(3 + seed % 3)]
    twin = copy.deepcopy(inds)
    prob = SingleObjectiveProblem(nested_fitness, minimize=False)
    SequentialEvaluator().evaluate(prob, twin)
    seq = [i.get_fitness(prob).fitness_components[0] for i in twin]
    try:
        ParallelEvaluator().evaluate(prob, inds)
        par = [i.get_fitness(prob).fitness_components[0] for i in inds]
    except BaseException as e:  # noqa
        par = f"raised {type(e).__name__}: {str(e)[:160]}"
    return par, seq


def main():
    global TARGET
    seed = int(sys.argv[1]) if len(sys.argv) > 1 else 0
    g = extract_grammar([Leaf], Pair)
    src = NativeRandomSource(seed)
    rep = TreeBasedRepresentation(g, MaxDepthDecider(src, g, 4))
    n = 2 + seed % 4
    first = batch(rep, src, n)
    TARGET = 100  # the next experiment of the same script
    second = batch(rep, src, n)  # same batch size: a pool kept from the first batch would serve it
    print("GEVJSON " + json.dumps({"first": first, "second": second, "factory": local_batch(seed), "nested": nested_batch(seed)}))


if __name__ == "__main__":
    main()
