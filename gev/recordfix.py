"""Maintainer helper (never run by a check): append a 'fixed' entry to known_findings.json and a row to DESIGN.md section 5.

    python -m gev.recordfix M67 C15 <commit> '<mechanism pattern>' '<what failed>' '<design: defect>' '<design: found by>'
"""

from __future__ import annotations

import json
import subprocess
import sys

from gev import core


def main(argv):
    mid, prop, commit, mech, what, defect, found = argv
    full = subprocess.run(["git", "-C", str(core.REPO), "rev-parse", commit], capture_output=True, text=True).stdout.strip()
    assert full, commit
    p = core.VERIF / "known_findings.json"
    k = json.load(open(p))
    k["findings"].append({"status": "fixed", "property": prop, "commit": full[:7], "commit_full": full, "mechanism": mech, "what": what, "line": f"fixed: property={prop} {full[:7]} {what}"})
    json.dump(k, open(p, "w"), indent=1)
    d = core.VERIF / "DESIGN.md"
    lines = open(d).read().split("\n")
    last = max(i for i, ln in enumerate(lines) if ln.startswith("| M") and ln.split("|")[1].strip()[1:].isdigit())
    lines.insert(last + 1, f"| {mid} | {defect} | {prop} {found} | fix {full[:7]} |")
    open(d, "w").write("\n".join(lines))
    print("recorded", mid, full[:7])


if __name__ == "__main__":
    main(sys.argv[1:])
