"""Shared workloads: representation/decider configurations and operation sequences driven through
the real public API, with every call reported to the subscribed monitors."""

from __future__ import annotations

import random as pyrandom
from dataclasses import dataclass, field
from typing import Any, Callable

from gev import core

core.setup_paths()

from geneticengine.random.sources import NativeRandomSource  # noqa: E402

REPRS = ["tree", "ge", "sge", "dsge", "stack"]
DECIDERS = ["maxdepth", "full", "pigrow", "progressive"]
DEPTH_LIMITED = {"maxdepth", "full", "pigrow"}


def make_decider(kind: str, source, grammar, max_depth: int):
    from geneticengine.representations.tree import initializations as I

    if kind == "maxdepth":
        return I.MaxDepthDecider(source, grammar, max_depth)
    if kind == "full":
        return I.FullDecider(source, grammar, max_depth)
    if kind == "pigrow":
        return I.PositionIndependentGrowDecider(source, grammar, max_depth)
    if kind == "progressive":
        return I.ProgressivelyTerminalDecider(source, grammar)
    raise ValueError(kind)


def make_repr(kind: str, grammar, decider_kind: str, max_depth: int, source, gene_length: int = 64):
    if kind == "tree":
        from geneticengine.representations.tree.treebased import TreeBasedRepresentation

        return TreeBasedRepresentation(grammar, make_decider(decider_kind, source, grammar, max_depth))
    if kind == "ge":
        from geneticengine.representations.grammatical_evolution.ge import GrammaticalEvolutionRepresentation

        return GrammaticalEvolutionRepresentation(grammar, make_decider(decider_kind, source, grammar, max_depth), gene_length)
    if kind == "sge":
        from geneticengine.representations.grammatical_evolution.structured_ge import StructuredGrammaticalEvolutionRepresentation

        return StructuredGrammaticalEvolutionRepresentation(grammar, make_decider(decider_kind, source, grammar, max_depth), gene_length)
    if kind == "dsge":
        from geneticengine.representations.grammatical_evolution.dynamic_structured_ge import DynamicStructuredGrammaticalEvolutionRepresentation

        return DynamicStructuredGrammaticalEvolutionRepresentation(grammar, max_depth)
    if kind == "stack":
        from geneticengine.representations.stackgggp import StackBasedGGGPRepresentation

        return StackBasedGGGPRepresentation(grammar, gene_length=max(gene_length, 256))
    raise ValueError(kind)


def depth_limit_of(repr_kind: str, decider_kind: str, max_depth: int):
    """The depth limit the configuration promises, or None."""
    if repr_kind == "stack":
        return None
    if repr_kind == "dsge":
        return max_depth
    return max_depth if decider_kind in DEPTH_LIMITED else None


@dataclass
class Event:
    op: str  # create | map | mutate | crossover
    repr_kind: str
    inputs: list  # genotypes given
    outputs: list = field(default_factory=list)  # genotypes returned
    phenotypes: list = field(default_factory=list)  # for map: [program]; for tree ops: the outputs themselves
    exc: BaseException | None = None
    index: int = 0


class StackMappingSpun(Exception):
    """Marker: a stack mapping was cut short by the harness (not an exception of the library)."""


class Session:
    """A growing pool of genotypes of one representation; every API call is an Event sent to `observe`."""

    def __init__(self, repr_kind, rep, source, observe: Callable[[Event], None], before: Callable[[str, list], Any] | None = None):
        self.kind = repr_kind
        self.rep = rep
        self.source = source
        self.observe = observe
        self.before = before
        self.pool: list = []
        self.n = 0

    def _emit(self, ev: Event):
        ev.index = self.n
        self.n += 1
        self.observe(ev)

    def _call(self, op, inputs, fn):
        token = self.before(op, inputs) if self.before else None
        ev = Event(op, self.kind, list(inputs))
        ev.token = token  # type: ignore[attr-defined]
        try:
            if self.kind == "stack" and op == "map":
                # the stack mapper only stops on failures or success: a gene cycle that keeps succeeding without ever
                # completing the start symbol spins forever. That hazard is no listed property: bound it and move on.
                if getattr(self, "spun", 0) >= 2:  # this grammar/genome family spins: stop mapping in this session
                    ev.exc = StackMappingSpun()
                    return ev
                try:
                    with core.time_limit(1.0):
                        res = fn()
                except core.CaseTimeout:
                    self.spun = getattr(self, "spun", 0) + 1
                    ev.exc = StackMappingSpun()
                    return ev
            else:
                res = fn()
            ev.outputs = list(res) if isinstance(res, tuple) and op == "crossover" else [res]
        except core.CaseTimeout:
            raise
        except BaseException as e:  # noqa
            if isinstance(e, KeyboardInterrupt):
                raise
            ev.exc = e
        if ev.exc is None and op == "map":
            ev.phenotypes, ev.outputs = list(ev.outputs), []
        elif ev.exc is None and self.kind == "tree":
            ev.phenotypes = list(ev.outputs)
        self._emit(ev)
        return ev

    def create(self):
        ev = self._call("create", [], lambda: self.rep.create_genotype(self.source))
        if ev.exc is None:
            self.pool.extend(ev.outputs)
        return ev

    def map(self, i):
        g = self.pool[i % len(self.pool)]
        return self._call("map", [g], lambda: self.rep.genotype_to_phenotype(g))

    def mutate(self, i):
        g = self.pool[i % len(self.pool)]
        ev = self._call("mutate", [g], lambda: self.rep.mutate(self.source, g))
        if ev.exc is None:
            self.pool.extend(ev.outputs)
        return ev

    def crossover(self, i, j):
        a, b = self.pool[i % len(self.pool)], self.pool[j % len(self.pool)]
        ev = self._call("crossover", [a, b], lambda: self.rep.crossover(self.source, a, b))
        if ev.exc is None:
            self.pool.extend(ev.outputs)
        return ev

    def run_ops(self, ops):
        """ops: list of ['create'] ['map', i] ['mutate', i] ['crossover', i, j] ['perturb', k]."""
        for op in ops:
            if op[0] == "create":
                self.create()
            elif not self.pool:
                continue
            elif op[0] == "map":
                self.map(op[1])
            elif op[0] == "mutate":
                ev = self.mutate(op[1])
                if ev.exc is None and self.kind != "tree":
                    self.map(len(self.pool) - 1)
            elif op[0] == "crossover":
                ev = self.crossover(op[1], op[2])
                if ev.exc is None and self.kind != "tree":
                    self.map(len(self.pool) - 1)
                    self.map(len(self.pool) - 2)
            elif op[0] == "perturb":
                for _ in range(op[1]):
                    self.source.randint(0, 1000)


def gen_ops(rng: pyrandom.Random, n: int, map_after_create=True):
    ops = [["create"], ["create"]]
    if map_after_create:
        ops += [["map", 0], ["map", 1]]
    for _ in range(n):
        r = rng.random()
        if r < 0.25:
            ops.append(["create"])
            if map_after_create:
                ops.append(["map", -1])
        elif r < 0.55:
            ops.append(["mutate", rng.randrange(1000)])
        elif r < 0.85:
            ops.append(["crossover", rng.randrange(1000), rng.randrange(1000)])
        elif r < 0.95:
            ops.append(["map", rng.randrange(1000)])
        else:
            ops.append(["perturb", rng.randrange(1, 5)])
    return ops


def config_grid(rng: pyrandom.Random, reprs=REPRS, deciders=DECIDERS):
    """One (representation, decider) pair per representation, deciders rotating."""
    out = []
    for r in reprs:
        if r in ("dsge", "stack"):
            out.append((r, "own"))
        else:
            out.append((r, rng.choice(deciders)))
    return out


def native(seed):
    return NativeRandomSource(seed)
