"""Self-validation (DESIGN section 8): applies deliberate single-site breaks to a scratch copy of the repository
and requires the property's quick check to report an unlisted VIOLATION.

    python -m gev.selftest [--only m03a,m04a] [--jobs 4] [--write-diffs]

Not part of any registered check. Scratch copies live under ~/.cache/gev-mut and are deleted after each mutant."""

from __future__ import annotations

import argparse
import concurrent.futures
import difflib
import os
import shutil
import subprocess
import sys
import time

from gev import core

GE = "geneticengine/"
INIT = GE + "representations/tree/initializations.py"
GRAM = GE + "grammar/grammar.py"
SRC = GE + "random/sources.py"
GEF = GE + "representations/grammatical_evolution/ge.py"
SGEF = GE + "representations/grammatical_evolution/structured_ge.py"
DSGEF = GE + "representations/grammatical_evolution/dynamic_structured_ge.py"
STACK = GE + "representations/stackgggp/__init__.py"
UTILS = GE + "representations/tree/utils.py"
COMB = GE + "algorithms/gp/operators/combinators.py"
SEL = GE + "algorithms/gp/operators/selection.py"
PROB = GE + "problems/__init__.py"
REC = GE + "evaluation/recorder.py"

# (id, property, file, old, new, note)
MUTANTS = [
    ("m01a", "C01", INIT, "    elif starting_symbol is bool:\n        return decider.random_bool()", "    elif starting_symbol is bool:\n        return int(decider.random_bool())", "bool field built from an int"),
    ("m01b", "C01", INIT, "vals = tuple(create_node(global_context, t, context, dependent_values) for t in types)", "vals = list(create_node(global_context, t, context, dependent_values) for t in types)", "tuple field built as a list"),
    ("m01c", "C01", STACK, "                    dependent_values[argn] = arg\n                    args.append(arg)", "                    dependent_values[argn] = arg\n                    args.append(arg if len(args) < 2 else None)", "stack mapper leaves the third field unset (None)"),
    ("m02a", "C02", GE + "grammar/metahandlers/ints.py", "        return random.randint(self.min, self.max)\n\n    def validate(self, v) -> bool:\n        return self.min <= v <= self.max", "        return random.randint(self.min, self.max + 1)\n\n    def validate(self, v) -> bool:\n        return self.min <= v <= self.max", "IntRange.generate off by one at the top"),
    ("m02b", "C02", GE + "grammar/metahandlers/lists.py", "        size = random.randint(self.min, self.max)\n        li = []\n        for i in range(size):\n            nv = rec(inner_type)\n            li.append(nv)\n        return GengyList(inner_type, li)", "        size = random.randint(self.min, self.max + 1)\n        li = []\n        for i in range(size):\n            nv = rec(inner_type)\n            li.append(nv)\n        return GengyList(inner_type, li)", "ListSizeBetweenWithoutListOperations draws one element too many"),
    ("m02c", "C02", GE + "grammar/metahandlers/strings.py", "        return self.min <= len(v) <= self.max and all(x in self.options for x in v)", "        return self.min < len(v) <= self.max and all(x in self.options for x in v)", "StringSizeBetween.validate rejects the minimum length"),
    ("m02d", "C02", GE + "grammar/metahandlers/dependent.py", "        values = [dependent_values[name] for name in self.get_dependencies()]\n        t: Any = self.callable(*values)", "        values = [dependent_values[name] for name in self.get_dependencies()]\n        self._stale = getattr(self, \"_stale\", values)\n        t: Any = self.callable(*self._stale)", "dependent refinement evaluated on a stale (first seen) sibling value"),
    ("m03a", "C03", INIT, "        alternatives = [\n            x for x in alternatives if self.grammar.get_distance_to_terminal(x) <= (self.max_depth - ctx.depth)\n        ]\n        return self.random.choice(alternatives)\n\n    def validate(self) -> None:\n        if self.max_depth < self.grammar.get_min_tree_depth():", "        alternatives = [\n            x for x in alternatives if self.grammar.get_distance_to_terminal(x) <= (self.max_depth - ctx.depth + 1)\n        ] or alternatives\n        return self.random.choice(alternatives)\n\n    def validate(self) -> None:\n        if self.max_depth < self.grammar.get_min_tree_depth():", "grow filter lets one more level through (overshoot)"),
    ("m03b", "C03", INIT, "    def validate(self) -> None:\n        if self.max_depth < self.grammar.get_min_tree_depth():", "    def validate(self) -> None:\n        if self.max_depth <= self.grammar.get_min_tree_depth():", "MaxDepthDecider refuses the frontier limit"),
    ("m03c", "C03", DSGEF, "        alternatives = [\n            x for x in alternatives if self.grammar.get_distance_to_terminal(x) <= (self.max_depth - ctx.depth)\n        ]\n        return alternatives[v % len(alternatives)]", "        return alternatives[v % len(alternatives)]", "dSGE decider drops the depth filter"),
    ("m03d", "C03", INIT, "        list_depth = context.depth + int(global_context.grammar.expansion_depthing)", "        list_depth = context.depth + 1", "list elements one level too deep again (frontier fails midway)"),
    ("m04a", "C04", INIT, "        alternatives = [\n            x for x in alternatives if self.grammar.get_distance_to_terminal(x) <= (self.max_depth - ctx.depth)\n        ]\n        return self.random.choice(alternatives)\n\n    def validate(self) -> None:\n        if self.max_depth < self.grammar.get_min_tree_depth():", "        alternatives = [\n            x for x in alternatives if self.grammar.get_distance_to_terminal(x) < (self.max_depth - ctx.depth)\n        ] or [x for x in alternatives if self.grammar.get_distance_to_terminal(x) <= (self.max_depth - ctx.depth)]\n        return self.random.choice(alternatives)\n\n    def validate(self) -> None:\n        if self.max_depth < self.grammar.get_min_tree_depth():", "grow prefers alternatives strictly below the frontier: frontier programs lost"),
    ("m04b", "C04", SRC, "        i = self.randint(0, len(choices) - 1)\n        return choices[i]", "        i = self.randint(0, max(0, len(choices) - 2))\n        return choices[i]", "choice never returns the last option"),
    ("m05a", "C05", GRAM, "                            val = min(\n                                val,\n                                int(self.expansion_depthing) + self.distanceToTerminal[prod],\n                            )", "                            val = min(\n                                val,\n                                1 + self.distanceToTerminal[prod],\n                            )", "abstract types cost a level in node depthing too"),
    ("m05b", "C05", GRAM, "        elif is_generic_list(ty):\n            ta = get_generic_parameter(ty)\n            return int(self.expansion_depthing) + self.get_distance_to_terminal(ta)", "        elif is_generic_list(ty):\n            return int(self.expansion_depthing)", "list wrapper case dropped from get_distance_to_terminal"),
    ("m05c", "C05", GRAM, "            self.register_type(parent)\n            self.register_alternative(parent, ty)", "            self.register_type(parent)\n            self.register_alternative(parent, ty)\n            if len(ty.mro()) > 2 and ty.mro()[2] in self.alternatives:\n                self.register_alternative(ty.mro()[2], ty)", "indirect subclasses registered as productions"),
    ("m05d", "C05", GRAM, "                elif is_generic_list(ty) or is_annotated(ty):\n                    yield from explode_generics([get_generic_parameter(ty)])", "                elif is_annotated(ty):\n                    yield from explode_generics([get_generic_parameter(ty)])", "reachability stops at lists (recursion through lists missed)"),
    ("m06a", "C06", GEF, "        c1 = parent1.dna[:rindex] + parent2.dna[rindex:]", "        c1 = parent1.dna[:rindex] + parent2.dna[rindex + 1 :] + parent2.dna[rindex : rindex + 1]", "GE crossover shifts loci"),
    ("m06b", "C06", SGEF, "        dna[rkey][rindex] = random.randint(0, sys.maxsize)\n        return Genotype(dna)", "        dna[rkey][rindex] = random.randint(0, sys.maxsize)\n        dna[rkey][rindex - 1] = random.randint(0, sys.maxsize)\n        return Genotype(dna)", "SGE mutation rewrites two genes"),
    ("m06c", "C06", STACK, "        return Genotype(clone)\n\n    def crossover(", "        return Genotype(clone[:-1])\n\n    def crossover(", "stack mutation changes the length"),
    ("m06d", "C06", GE + "representations/tree/treebased.py", "                return global_context.decider.choose_options(options, i.gengy_synthesis_context)", "                return create_node(global_context, ty, i.gengy_synthesis_context, dependent_values)", "tree crossover ignores the donor material (concrete start symbol too)"),
    ("m07a", "C07", GEF, "        if hasattr(decider, \"random\"):\n            decider.random = rand", "        if False:\n            decider.random = rand", "GE decider draws from the shared RNG again"),
    ("m07b", "C07", DSGEF, "        v = self.decider.read(RandomSource)\n        return v % (max - min + 1) + min", "        v = self.decider.genotype.random.randint(0, MAX_GENE_VALUE)\n        return v % (max - min + 1) + min", "dSGE metahandler draws come from the shared RNG"),
    ("m07c", "C07", STACK, "    index: int = 0\n\n    def randint(self, min: int, max: int) -> int:\n        self.index = (self.index + 1) % len(self.dna)\n        v = self.dna[self.index]\n        return v % (max - min + 1) + min\n\n    def random_float(self, min: float, max: float) -> float:\n        b =", "    index: int = 0\n    _calls = [0]\n\n    def randint(self, min: int, max: int) -> int:\n        ListWrapper._calls[0] += 1\n        self.index = (self.index + 1 + (ListWrapper._calls[0] // 5000)) % len(self.dna)\n        v = self.dna[self.index]\n        return v % (max - min + 1) + min\n\n    def random_float(self, min: float, max: float) -> float:\n        b =", "stack wrapper reads genes through a process-global call counter (history dependent)"),
    ("m08a", "C08", STACK, "    all_stack_types = ordered_mentioned_symbols(g)", "    all_stack_types = g.get_all_mentioned_symbols()", "stack mapping iterates the address-ordered set again"),
    ("m08b", "C08", INIT, "        return self.random.choice(alternatives)\n\n    def validate(self) -> None:", "        return sorted(alternatives, key=id)[self.random.randint(0, len(alternatives) - 1)]\n\n    def validate(self) -> None:", "grow decider orders alternatives by id()"),
    ("m08c", "C08", SRC, "    def randint(self, min, max) -> int:\n        return self.random.randint(min, max)", "    def randint(self, min, max) -> int:\n        return random.randint(min, max) if max - min == 1 else self.random.randint(min, max)", "native source uses the global random module for coin flips"),
    ("m09a", "C09", GEF, "        clone = [i for i in genotype.dna]\n        clone[rindex] = random.randint(0, sys.maxsize)", "        clone = genotype.dna\n        clone[rindex] = random.randint(0, sys.maxsize)", "GE mutation edits the parent's gene list in place"),
    ("m09b", "C09", SGEF, "        dna = deepcopy(genotype.dna)\n        dna[rkey][rindex]", "        dna = dict(genotype.dna)\n        dna[rkey][rindex]", "SGE mutation shares gene lists with the parent (shallow copy)"),
    ("m09c", "C09", GE + "algorithms/gp/operators/mutation.py", "                    nind = self.wrap(representation, mutated)\n                    yield nind", "                    ind.genotype = mutated\n                    ind.phenotype = None\n                    yield ind", "mutation step re-stamps the parent Individual instead of creating a new one"),
    ("m09d", "C09", GE + "representations/tree/treebased.py", "                return global_context.decider.choose_options(options, i.gengy_synthesis_context)", "                donor = global_context.decider.choose_options(options, i.gengy_synthesis_context)\n                donor.gengy_synthesis_context = i.gengy_synthesis_context\n                return donor", "crossover re-stamps the synthesis context of the reused donor subtree (which still belongs to the other parent)"),
    ("m10a", "C10", INIT, "compatible_productions = list(global_context.grammar.alternatives[starting_symbol])", "compatible_productions = global_context.grammar.alternatives[starting_symbol]", "backtracking edits the grammar's production list again"),
    ("m10b", "C10", INIT, "        assert len(alternatives) > 0, \"No alternatives presented\"\n        alternatives = [\n            x for x in alternatives if self.grammar.get_distance_to_terminal(x) <= (self.max_depth - ctx.depth)\n        ]\n        return self.random.choice(alternatives)", "        assert len(alternatives) > 0, \"No alternatives presented\"\n        self.grammar.distanceToTerminal.setdefault(ty, min(self.grammar.get_distance_to_terminal(x) for x in alternatives))\n        alternatives = [\n            x for x in alternatives if self.grammar.get_distance_to_terminal(x) <= (self.max_depth - ctx.depth)\n        ]\n        return self.random.choice(alternatives)", "grow decider memoises union distances into the grammar"),
    ("m10c", "C10", INIT, "        production_weights = self.grammar.get_weights()\n", "        production_weights = self.grammar.get_weights()\n        for alt in alternatives:\n            if hasattr(alt, \"__gengy__\") and \"weight\" in alt.__gengy__ and ctx.depth > 3:\n                alt.__gengy__[\"weight\"] = alt.__gengy__[\"weight\"] * 0.5\n", "weight-aware decider rewrites production weights during search"),
    ("m11a", "C11", UTILS, "        if isinstance(i, list):\n            children = [(type(obj), obj) for obj in i]\n        elif hasattr(i, \"gengy_init_values\"):", "        if hasattr(i, \"gengy_init_values\") and not getattr(i, \"_x\", False):", "list children skipped again"),
    ("m11b", "C11", UTILS, "            distance_to_term = max(distance_to_term, dist + abs_adjust + list_adjust)", "            distance_to_term = max(distance_to_term, dist + abs_adjust)", "distance not incremented per level"),
    ("m11c", "C11", UTILS, "            for k, v in thisway.items():\n                types_this_way[k].extend(v)", "            for k, v in thisway.items():\n                if k not in types_this_way:\n                    types_this_way[k].extend(v)", "type index misses repeated types below a node"),
    ("m11d", "C11", UTILS, "            abs_adjust = 0 if not is_abstract(decl) or not g.expansion_depthing else g.abstract_dist_to_t[decl][type(c)]", "            abs_adjust = 0 if not is_abstract(decl) or not g.expansion_depthing else max(g.abstract_dist_to_t[decl][type(c)] - 1, 1)", "expansion depthing: a production two rules below its declared type counts one expansion only"),
    ("m12a", "C12", PROB, "        return a.maximizing_aggregate > b.maximizing_aggregate", "        return a.maximizing_aggregate >= b.maximizing_aggregate", "ties count as improvements"),
    ("m12b", "C12", GE + "evaluation/tracker.py", "        elif problem.is_better(individual.get_fitness(problem), self.best_individual.get_fitness(problem)):\n            self.best_individual = individual\n            is_best = True", "        elif problem.is_better(individual.get_fitness(problem), self.best_individual.get_fitness(problem)):\n            is_best = True", "best individual not updated on improvement"),
    ("m12c", "C12", GE + "algorithms/random_search.py", "        return self.tracker.get_best_individual()", "        return ind", "random search returns the last individual"),
    ("m13a", "C13", GE + "evaluation/parallel.py", "            for i, f in zip(indivs, fitnesses):", "            for i, f in zip(indivs, reversed(fitnesses)):", "parallel results paired with the wrong individuals"),
    ("m13b", "C13", GE + "evaluation/sequential.py", "            if not individual.has_fitness(problem):", "            if True:", "sequential evaluator re-evaluates"),
    ("m13c", "C13", PROB, "        key = -v if minimize_value else v\n        return Fitness(key, [v])", "        key = v\n        return Fitness(key, [v])", "aggregate sign ignored under minimisation"),
    ("m13d", "C13", GE + "evaluation/api.py", "        self.count += 1", "        self.count += 1 if self.count % 7 else 2", "evaluation counter double counts now and then"),
    ("m14a", "C14", GE + "evaluation/budget.py", "        return tracker.get_number_evaluations() >= self.evaluations_budget", "        return tracker.get_number_evaluations() > self.evaluations_budget", "evaluation budget needs one more evaluation"),
    ("m14b", "C14", GE + "evaluation/budget.py", "        return self.a.is_done(tracker) or self.b.is_done(tracker)", "        return self.a.is_done(tracker) and self.b.is_done(tracker)", "AnyOf behaves as AllOf"),
    ("m14c", "C14", GE + "evaluation/budget.py", "        comps = best.get_fitness(tracker.get_problem()).fitness_components\n        # the best fitness is at the target", "        comps = [best.get_fitness(tracker.get_problem()).maximizing_aggregate]\n        # the best fitness is at the target", "target compared with the maximising aggregate"),
    ("m15a", "C15", COMB, "        indices[-1] = target_size  # the slices always add up to the target, whatever the rounding did\n", "", "last slice no longer patched to the target"),
    ("m15b", "C15", GE + "algorithms/gp/operators/crossover.py", "        if (target_size // 2) * 2 < target_size:\n            yield npopulation[0]", "        if (target_size // 2) * 2 < target_size and target_size > 3:\n            yield npopulation[0]", "crossover forgets the odd slot for small targets"),
    ("m15c", "C15", GE + "representations/tree/operators.py", "                target_size - len(injected),", "                target_size - len(injected) + 1,", "inject wrapper tops up one too many"),
    ("m15d", "C15", GE + "algorithms/gp/operators/novelty.py", "        for _ in range(target_size):", "        for _ in range(max(1, target_size - (target_size > 8))):", "novelty step is one short for larger slices"),
    ("m16a", "C16", GE + "problems/helpers.py", "reverse=True)", "reverse=False)", "population sorted worst first"),
    ("m16b", "C16", GE + "algorithms/gp/operators/elitism.py", "        yield from new_population[:target_size]", "        yield from new_population[-target_size:]", "elitism slices from the wrong end"),
    ("m16c", "C16", GE + "problems/helpers.py", "    return sorted(population, key=lambda x: x.get_fitness(problem).maximizing_aggregate, reverse=True)", "    return sorted(population, key=lambda x: x.get_fitness(problem).fitness_components[0], reverse=True)", "sorting on the raw value (wrong under minimisation)"),
    ("m17a", "C17", SEL, "            winner = max(candidates, key=Individual.key_function(problem))", "            winner = min(candidates, key=Individual.key_function(problem))", "tournament keeps the worst"),
    ("m17b", "C17", SEL, "        for _ in range(target_size):\n            cases = random.shuffle(list(range(n_cases)))  # a fresh case order for every winner\n", "        cases = random.shuffle(list(range(n_cases)))\n        for _ in range(target_size):\n", "lexicase cases consumed by the first winner again"),
    ("m17c", "C17", SEL, "            winner = max(candidates, key=Individual.key_function(problem))", "            winner = max(all_candidates if len(candidates) > 2 else candidates, key=Individual.key_function(problem))", "winner taken from outside the drawn group"),
    ("m17d", "C17", SEL, "                    if problem.minimize[c]:\n                        add_candidate = fitness.fitness_components[c] <= checking_value", "                    if not problem.minimize[c]:\n                        add_candidate = fitness.fitness_components[c] <= checking_value", "lexicase filter direction inverted"),
    ("m18a", "C18", GEF, "        return v % (max - min + 1) + min\n\n    def random_float(self, min: float, max: float) -> float:\n        k = self.randint(1, sys.maxsize)", "        return v % (max - min + 2) + min\n\n    def random_float(self, min: float, max: float) -> float:\n        k = self.randint(1, sys.maxsize)", "GE wrapper reduces modulo width + 2"),
    ("m18b", "C18", SRC, "        for i in reversed(range(1, len(lst))):\n            j = self.randint(0, i)", "        for i in reversed(range(1, len(lst))):\n            j = self.randint(0, max(0, i - 1))", "shuffle never leaves an element in place (not uniform)"),
    ("m18c", "C18", SRC, "        lst[i], item = item, lst[i]\n\n        return item", "        lst[i], item = item, lst[i]\n\n        return lst[0] if lst else item", "pop_random returns another element than the one removed"),
    ("m18d", "C18", STACK, "        k = pow(b, e)\n        return float_between(min, max, 1, k)", "        k = pow(b, e)\n        return 1 * (max - min) / k + max", "stack wrapper's random_float lands above its upper bound"),
    ("m19a", "C19", GRAM, "            for prod in prods:\n                weights[prod] = weights[prod] / total_weights\n", "            for prod in prods:\n                weights[prod] = weights[prod] / sum(weights[p] for p in self.all_nodes if p in weights and not is_builtin(p))\n", "weights normalised over all nodes instead of per rule"),
    ("m19b", "C19", GRAM, "                weights[prod] += learning_rate * extra_weights[prod]\n", "                weights[prod] += learning_rate * 0.05\n", "re-extraction compounds (ratios drift with every extraction)"),
    ("m19c", "C19", STACK, "                [weights.get(x, 1) for x in all_stack_types],", "                [weights.get(x, 1) + 0.001 for x in all_stack_types],", "stack mapper can pick zero-weight productions"),
    ("m20a", "C20", REC, "lambda t, i, p, comp=comp: i.get_fitness(p).fitness_components[comp]", "lambda t, i, p: i.get_fitness(p).fitness_components[comp]", "late-binding fitness columns again"),
    ("m20b", "C20", REC, "                [self.fields[name](tracker, individual, problem) for name in self.fields],\n            )\n            self.csv_file.flush()", "                [self.fields[name](tracker, individual, problem) for name in self.fields],\n            )", "per-row flush dropped"),
    ("m20c", "C20", REC, "        if not self.only_record_best_individuals or is_best:", "        if self.only_record_best_individuals or is_best:", "recording mode inverted"),
    ("m20d", "C20", REC, "            self.csv_writer.writerow(\n                [self.fields[name](tracker, individual, problem) for name in self.fields],\n            )", "            for name in self.fields:\n                self.csv_file.write(str(self.fields[name](tracker, individual, problem)) + \",\")\n                self.csv_file.flush()\n            self.csv_file.write(\"\\r\\n\")", "row written and flushed cell by cell"),
]


def scratch_copy(mid):
    root = os.path.expanduser(f"~/.cache/gev-mut/{mid}")
    shutil.rmtree(root, ignore_errors=True)
    os.makedirs(root)
    for d in ("geneticengine", "geml"):
        shutil.copytree(core.REPO / d, os.path.join(root, d), ignore=shutil.ignore_patterns("__pycache__", "*.pyc"))
    return root


def make_diff(path, old_text, new_text):
    return "".join(difflib.unified_diff(old_text.splitlines(True), new_text.splitlines(True), f"a/{path}", f"b/{path}"))


def run_one(m, tier="quick", write_diffs=False):
    mid, prop, path, old, new, note = m
    src = (core.REPO / path).read_text()
    if old not in src:
        return mid, prop, "STALE", f"anchor text not found in {path}", 0.0
    mutated = src.replace(old, new, 1)
    if write_diffs:
        (core.VERIF / "mutants").mkdir(exist_ok=True)
        (core.VERIF / "mutants" / f"{mid}-{prop}.diff").write_text(f"# {note}\n" + make_diff(path, src, mutated))
    root = scratch_copy(mid)
    t0 = time.monotonic()
    try:
        with open(os.path.join(root, path), "w") as f:
            f.write(mutated)
        chk = subprocess.run([core.PY, "-c", f"import sys; sys.path.insert(0, {root!r}); import geneticengine.prelude, geml.simplegp"], capture_output=True, text=True)
        if chk.returncode != 0:
            return mid, prop, "BROKEN-IMPORT", chk.stderr[-200:], 0.0
        env = dict(os.environ, GEV_REPO_ROOT=root, GEV_SCRATCH="")
        env.pop("GEV_SCRATCH")
        p = subprocess.run([str(core.VERIF / "check"), prop, "--tier", tier], capture_output=True, text=True, env=dict(env, GEV_NO_EVIDENCE="1"), cwd=str(core.VERIF))
        lines = [ln for ln in p.stdout.splitlines() if ln.startswith("VIOLATION")]
        verdict = "CAUGHT" if p.returncode == 1 and lines else ("INCONCLUSIVE" if p.returncode == 2 else "MISSED")
        detail = "; ".join(ln.split("mechanism=")[-1][:70] for ln in lines[:3]) if lines else p.stdout.strip().splitlines()[-1][:160]
        return mid, prop, verdict, detail, time.monotonic() - t0
    finally:
        shutil.rmtree(root, ignore_errors=True)


def main(argv=None):
    ap = argparse.ArgumentParser()
    ap.add_argument("--only", default="")
    ap.add_argument("--jobs", type=int, default=3)
    ap.add_argument("--tier", default="quick")
    ap.add_argument("--write-diffs", action="store_true")
    a = ap.parse_args(argv)
    only = set(x for x in a.only.split(",") if x)
    todo = [m for m in MUTANTS if not only or m[0] in only or m[1] in only]
    core.ensure_deps()
    results = []
    with concurrent.futures.ThreadPoolExecutor(a.jobs) as ex:
        for r in ex.map(lambda m: run_one(m, a.tier, a.write_diffs), todo):
            results.append(r)
            print(f"{r[0]} {r[1]} {r[2]:<13} {r[4]:5.1f}s  {r[3]}", flush=True)
    bad = [r for r in results if r[2] != "CAUGHT"]
    print(f"selftest: {len(results) - len(bad)}/{len(results)} caught")
    return 1 if bad else 0


if __name__ == "__main__":
    sys.exit(main())
