"""sys.monitoring helpers: count entries into given code objects (anchor-reach evidence, 'midway' counters)
and source-free failpoints."""

from __future__ import annotations

import sys

TOOL = 3  # sys.monitoring tool id (free slot)


class CallCounter:
    """Counts PY_START events of the given functions while active. Works through every alias of the function."""

    def __init__(self, funcs):
        self.codes = {f.__code__: getattr(f, "__qualname__", str(f)) for f in funcs}
        self.counts = {name: 0 for name in self.codes.values()}
        self.active = False

    def _cb(self, code, offset):
        name = self.codes.get(code)
        if name is not None:
            self.counts[name] += 1
        else:
            return sys.monitoring.DISABLE

    def __enter__(self):
        mon = sys.monitoring
        try:
            mon.use_tool_id(TOOL, "gev-anchors")
        except ValueError:
            pass
        mon.register_callback(TOOL, mon.events.PY_START, self._cb)
        for code in self.codes:
            mon.set_local_events(TOOL, code, mon.events.PY_START)
        self.active = True
        return self

    def __exit__(self, *a):
        mon = sys.monitoring
        for code in self.codes:
            mon.set_local_events(TOOL, code, 0)
        mon.register_callback(TOOL, mon.events.PY_START, None)
        try:
            mon.free_tool_id(TOOL)
        except ValueError:
            pass
        self.active = False
        return False

    def total(self):
        return sum(self.counts.values())

    def reset(self):
        for k in self.counts:
            self.counts[k] = 0
