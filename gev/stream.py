"""Program-stream driver shared by C01/C02/C03/C11: runs operation sequences and short searches over
the grammar family with the real representations; per-program oracles are plugged in."""

from __future__ import annotations

import random as pyrandom

from gev import core, grammars, refmodel, workload


def gen_cases(tier, seed, n_grammars, profiles=("general",), reprs=workload.REPRS, nops=(14, 30), with_search=True, expansion_share=0.0):
    rng = pyrandom.Random(f"stream-{seed}")
    descs = []
    per = max(1, n_grammars // len(profiles))
    for pi, prof in enumerate(profiles):
        descs += grammars.family(seed + 17 * pi, per, prof, with_fixed=(pi == 0))
    for gi, desc in enumerate(descs):
        for rk, dk in workload.config_grid(rng, reprs):
            d = dict(desc)
            if rng.random() < 0.25:
                d = grammars.reordered(d, rng, move_start=str(desc.get("name", "")).startswith(("general", "fx_layers", "fx_nested")))
            if expansion_share and rng.random() < expansion_share:
                d["expansion"] = True
            fixed_member = str(desc.get("name", "")).startswith("fx_")
            if not d.get("python") and pyrandom.Random(f"str-{seed}-{gi}-{rk}-{dk}").random() < 0.2:
                # declared with STRING annotations (postponed evaluation / quoted forward references), which the library
                # resolves anew on every expansion: every refinement is a new object each time
                d["_string_annotations"] = True
                d["name"] = str(d.get("name", "g")) + "~str"
            case = {
                "desc": d,
                "repr": rk,
                "decider": dk,
                "extra_depth": rng.choice([0, 0, 1, 2, 4]),
                "seed": rng.randrange(10**6),
                "nops": rng.randint(*nops),
                "search": (rng.choice(["gp", "rs", "hc", "opo"]) if with_search and rng.random() < 0.35 else None),
                "retype": rng.random() < 0.2,
            }
            yield case
            if fixed_member and rk in ("stack", "dsge", "sge") and not d.get("_string_annotations") and not d.get("python"):
                # every hand-written shape ALSO under string annotations, for the representations that key what they keep
                # by type objects (an extra case: the plain one above stays)
                yield dict(case, desc=dict(d, _string_annotations=True, name=str(d.get("name", "g")) + "~str"), seed=case["seed"] + 1)


class Ctx:
    """Everything an oracle needs about the running case."""

    def __init__(self, case, built, grammar, model, max_depth, rec):
        self.case, self.built, self.grammar, self.model, self.max_depth, self.rec = case, built, grammar, model, max_depth, rec
        self.repr = case["repr"]
        self.decider = case["decider"]
        self.limit = workload.depth_limit_of(case["repr"], case["decider"], max_depth)


def open_case(case, rec):
    """Materialise + extract + model; returns Ctx or None when the grammar cannot be used."""
    built = grammars.materialise(case["desc"])
    try:
        g = grammars.extract(built)
    except BaseException as e:  # noqa
        built.dispose()
        rec.count("extract_failed")
        rec.violation(f"exc:extract_grammar:{type(e).__name__}@{core.exc_site(e)}", {"error": core.short(e)})
        return None
    model = refmodel.Model(built.classes, built.start, expansion=bool(case["desc"].get("expansion")))
    md = g.get_min_tree_depth()
    if md >= 1000000:
        built.dispose()
        rec.count("unproductive_grammar")
        return None
    if case["desc"].get("_string_annotations"):
        rec.count("cases_declared_with_string_annotations")
    return Ctx(case, built, g, model, md + case.get("extra_depth", 0), rec)


def retyped_ctx(ctx: Ctx):
    """The documented idiom `Prod.__init__.__annotations__[field] = NewType` + a new extraction, applied to the SAME
    class objects: returns the context of the re-declared grammar (None if no field can be re-declared or the new
    grammar is not usable). Anything the library remembered about the old declaration must not survive."""
    rng = pyrandom.Random(ctx.case["seed"] + 99)
    d2 = grammars.retyped(ctx.built.desc, rng)
    if d2 is None:
        return None
    built2 = grammars.apply_retype(ctx.built, d2)
    try:
        g2 = grammars.extract(built2)
    except BaseException as e:  # noqa
        ctx.rec.count("extract_failed")
        ctx.rec.violation(f"exc:extract_grammar:{type(e).__name__}@{core.exc_site(e)}", {"error": core.short(e), "after": "re-declared field"})
        return None
    md = g2.get_min_tree_depth()
    if md >= 1000000:
        return None
    case2 = dict(ctx.case, desc=d2)
    model2 = refmodel.Model(built2.classes, built2.start, expansion=bool(d2.get("expansion")))
    return Ctx(case2, built2, g2, model2, md + ctx.case.get("extra_depth", 0), ctx.rec)


def run_session(ctx: Ctx, on_event, before=None, on_search_program=None):
    """Runs the case's operation sequence (and optional short search) on a fresh representation."""
    case, rec = ctx.case, ctx.rec
    src = workload.native(case["seed"])
    try:
        rep = workload.make_repr(case["repr"], ctx.grammar, case["decider"] if case["decider"] != "own" else "maxdepth", ctx.max_depth, src)
    except BaseException as e:  # noqa
        rec.count("config_rejected")
        on_event(workload.Event("construct", case["repr"], [], exc=e))
        return None
    sess = workload.Session(case["repr"], rep, src, on_event, before)
    ops = workload.gen_ops(pyrandom.Random(case["seed"]), case["nops"])
    sess.run_ops(ops)
    if case.get("search") and on_search_program is not None:
        sev = run_search(ctx, rep, case["search"], case["seed"], on_search_program)
        if sev is not None:
            on_event(sev)
    return sess


def run_search(ctx, rep, alg, seed, on_program, budget=40, pop=8):
    """A short real search whose fitness function is the monitor."""
    from geneticengine.algorithms.gp.gp import GeneticProgramming
    from geneticengine.algorithms.hill_climbing import HC
    from geneticengine.algorithms.one_plus_one import OnePlusOne
    from geneticengine.algorithms.random_search import RandomSearch
    from geneticengine.evaluation.budget import EvaluationBudget
    from geneticengine.problems import SingleObjectiveProblem

    rec = ctx.rec
    counter = [0]

    def fitness(p):
        counter[0] += 1
        on_program(p)
        return float(counter[0] % 7)

    prob = SingleObjectiveProblem(fitness, minimize=False)
    src = workload.native(seed + 1)
    try:
        if alg == "gp":
            a = GeneticProgramming(prob, EvaluationBudget(budget), rep, src, population_size=pop)
        elif alg == "rs":
            a = RandomSearch(prob, EvaluationBudget(budget // 2), rep, src)
        elif alg == "hc":
            a = HC(prob, EvaluationBudget(budget // 2), rep, src, number_of_mutations=3)
        else:
            a = OnePlusOne(prob, EvaluationBudget(budget // 2), rep, src)
        a.search()
        rec.count(f"search_{alg}")
    except core.CaseTimeout:
        raise
    except BaseException as e:  # noqa
        if isinstance(e, KeyboardInterrupt):
            raise
        rec.count("search_raised")
        ev = workload.Event("search", ctx.repr, [], exc=e)
        ev.alg = alg  # type: ignore[attr-defined]
        return ev
    return None


def obs_type_name(v) -> str:
    t = type(v)
    if t.__module__ == "builtins":
        return t.__name__
    if t.__name__ == "GengyList":
        return "GengyList"
    return "object"
