"""Helpers for the search-level properties: a tiny grammar, populations with prescribed fitness,
scripted fitness landscapes, recorders and monitored budgets (all through the library's extension API)."""


import sys
import types
from abc import ABC
from dataclasses import dataclass
from typing import Annotated

from gev import core

core.setup_paths()

_cache: dict = {}


def tiny():
    """Root -> Leaf | Lit(IntRange(0,9)) | Plus(Root, Root) | Neg(Root); module registered so hints resolve and pickling works."""
    if "tiny" in _cache:
        return _cache["tiny"]
    from geneticengine.grammar.grammar import extract_grammar
    from geneticengine.grammar.metahandlers.ints import IntRange

    modname = "gev_tiny_grammar"
    mod = types.ModuleType(modname)
    sys.modules[modname] = mod

    class Root(ABC):
        pass

    @dataclass
    class Leaf(Root):
        pass

    @dataclass
    class Lit(Root):
        v: Annotated[int, IntRange(0, 9)]

    @dataclass
    class Plus(Root):
        l: Root  # noqa: E741
        r: Root

    @dataclass
    class Neg(Root):
        e: Root

    for c in (Root, Leaf, Lit, Plus, Neg):
        c.__module__ = modname
        c.__qualname__ = c.__name__
        setattr(mod, c.__name__, c)
    g = extract_grammar([Leaf, Lit, Plus, Neg], Root)
    _cache["tiny"] = (g, mod)
    return _cache["tiny"]


def tiny_deep():
    """Top(a: Mid) as a CONCRETE start symbol, Mid -> Wrap(e: Root), Root as in tiny(): the shallowest program is three
    levels deep, so an initialiser that starts at depth 1 has to work its way up."""
    if "deep" in _cache:
        return _cache["deep"]
    from geneticengine.grammar.grammar import extract_grammar
    from geneticengine.grammar.metahandlers.ints import IntRange

    modname = "gev_tiny_deep_grammar"
    mod = types.ModuleType(modname)
    sys.modules[modname] = mod

    class Root(ABC):
        pass

    class Mid(ABC):
        pass

    @dataclass
    class Leaf(Root):
        pass

    @dataclass
    class Lit(Root):
        v: Annotated[int, IntRange(0, 9)]

    @dataclass
    class Plus(Root):
        l: Root  # noqa: E741
        r: Root

    @dataclass
    class Wrap(Mid):
        e: Root

    @dataclass
    class Top:
        a: Mid

    for c in (Root, Mid, Leaf, Lit, Plus, Wrap, Top):
        c.__module__ = modname
        c.__qualname__ = c.__name__
        setattr(mod, c.__name__, c)
    g = extract_grammar([Leaf, Lit, Plus, Wrap, Top], Top)
    _cache["deep"] = (g, mod)
    return _cache["deep"]


def text(p, d=0) -> str:
    """Canonical text of a tiny-grammar program."""
    n = type(p).__name__
    if n == "Leaf":
        return "Leaf"
    if n == "Lit":
        return f"Lit{p.v}"
    if n == "Plus":
        return f"Plus({text(p.l, d + 1)},{text(p.r, d + 1)})"
    if n == "Neg":
        return f"Neg({text(p.e, d + 1)})"
    if n == "Wrap":
        return f"Wrap({text(p.e, d + 1)})"
    if n == "Top":
        return f"Top({text(p.a, d + 1)})"
    return f"<{n}>"


def stable_hash(s: str) -> int:
    import hashlib

    return int(hashlib.md5(s.encode()).hexdigest()[:8], 16)


def make_rep(kind, grammar, src, max_depth=4, gene_length=32):
    from gev import workload

    return workload.make_repr(kind, grammar, "maxdepth", max_depth, src, gene_length=gene_length)


class TableFitness:
    """fitness(program) looked up by program identity (prescribed values), falling back to a pure function of
    the program text. Counts invocations per program identity."""

    def __init__(self, n_objectives=None, modulus=7):
        self.table: dict = {}
        self.calls: list = []
        self.n = n_objectives
        self.mod = modulus

    def prescribe(self, program, value):
        self.table[id(program)] = value
        self._keep = getattr(self, "_keep", [])
        self._keep.append(program)  # keep alive so ids stay unique

    def pure(self, program):
        h = stable_hash(text(program))
        if self.n is None:
            return float(h % self.mod)
        return [float((h >> (3 * i)) % self.mod) for i in range(self.n)]

    def __call__(self, program):
        self.calls.append(id(program))
        if id(program) in self.table:
            return self.table[id(program)]
        return self.pure(program)


def individuals(rep, src, n, tries=20):
    from geneticengine.solutions.individual import Individual

    out = []
    for _ in range(n * tries):
        if len(out) >= n:
            break
        try:
            g = rep.create_genotype(src)
            ind = Individual(g, rep)
            ind.get_phenotype()
            out.append(ind)
        except Exception:  # noqa
            continue
    return out


class ListRecorder:
    """SearchRecorder (extension API) that keeps every registration."""

    def __init__(self):
        self.events: list = []

    def register(self, tracker, individual, problem, is_best):
        self.events.append((individual, bool(is_best), individual.metadata.get("generation"), tracker.get_number_evaluations() if hasattr(tracker, "get_number_evaluations") else None))


def make_recorder_class():
    from geneticengine.evaluation.recorder import SearchRecorder

    class R(ListRecorder, SearchRecorder):
        pass

    return R


def check_count_budget(n_checks):
    """A user-supplied SearchBudget (extension API) that is done at its n-th check: lets a run last a fixed number of
    generations whatever the step creates."""
    from geneticengine.evaluation.budget import SearchBudget

    class CheckCountBudget(SearchBudget):
        def __init__(self, n):
            self.n = n
            self.checks = 0

        def is_done(self, tracker):
            self.checks += 1
            return self.checks > self.n

    return CheckCountBudget(n_checks)


def tiny_ambiguous():
    """Num -> Lit(0..9) | Sub(Num, Num) with a __str__ that prints subtraction WITHOUT parentheses: different programs
    can print alike ('7 - 2 - 1'), which is legal and common in user grammars."""
    if "amb" in _cache:
        return _cache["amb"]
    from geneticengine.grammar.grammar import extract_grammar
    from geneticengine.grammar.metahandlers.ints import IntRange

    modname = "gev_tiny_ambiguous"
    mod = types.ModuleType(modname)
    sys.modules[modname] = mod

    class Num(ABC):
        pass

    @dataclass
    class Lit(Num):
        v: Annotated[int, IntRange(0, 9)]

        def __str__(self):
            return str(self.v)

        def value(self):
            return self.v

        def left_depth(self):
            return 1

    @dataclass
    class Sub(Num):
        l: Num  # noqa: E741
        r: Num

        def __str__(self):
            return f"{self.l} - {self.r}"

        def value(self):
            return self.l.value() - self.r.value()

        def left_depth(self):
            return 1 + self.l.left_depth()

    for c in (Num, Lit, Sub):
        c.__module__ = modname
        c.__qualname__ = c.__name__
        setattr(mod, c.__name__, c)
    g = extract_grammar([Lit, Sub], Num)
    _cache["amb"] = (g, mod)
    return _cache["amb"]
