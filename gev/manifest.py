"""Regenerates MANIFEST.json from the driver modules: python -m gev.manifest"""

from __future__ import annotations

import importlib
import json

from gev import core

core.setup_paths()

ALL = [f"C{i:02d}" for i in range(1, 21)]


def main():
    checks, missing = [], []
    for pid in ALL:
        try:
            drv = importlib.import_module(f"gev.props.{pid.lower()}")
        except ModuleNotFoundError:
            missing.append(pid)
            continue
        checks.append(
            {
                "property_id": pid,
                "quick_cmd": f"./check {pid} --tier quick",
                "thorough_cmd": f"./check {pid} --tier thorough",
                "evidence_file": f"evidence/{pid}.json",
                "replay_cmd_template": f"./check {pid} --replay {{path}}",
                "engine": "gev",
                "level_claimed": {
                    "category": drv.LEVEL,
                    "text": drv.LEVEL_TEXT if hasattr(drv, "LEVEL_TEXT") else "held on the executions observed (counts in the evidence file); nothing is proved",
                    "design_ref": f"DESIGN.md section 6 ({pid})",
                },
                "level_note": "; ".join(drv.ASSUMPTIONS),
                "technique": drv.TECHNIQUE,
            },
        )
    manifest = {
        "version": 1,
        "setup_cmd": "./setup.sh",
        "hooks": {
            "guard": "GENETICENGINE_VERIF",
            "enable": "no source hooks: monitors wrap the public API from outside; checks import the working tree under /repo (GEV_REPO_ROOT)",
            "baseline_off_cmd": "cd /repo && /venv/bin/python -m pytest -ra -q -p no:cacheprovider --timeout=900 --continue-on-collection-errors",
            "source_commits": [],
            "add_only": True,
        },
        "engines": [
            {
                "name": "gev",
                "path": "gev/",
                "serves_properties": [c["property_id"] for c in checks],
                "kind_free_text": "runtime monitoring: reference-model oracles, history checkers and tripwires attached to the real library while it runs generated, scripted-exhaustive and fault-injected workloads",
            },
        ],
        "checks": checks,
        "notes": "Known findings: known_findings.json (mechanism-keyed). Exit codes: 0 held, 1 violated, 2 inconclusive (monitor coverage thresholds not met).",
        "not_applicable": [{"property_id": p, "reason": "check not built yet in this round (no claim made); runtime monitoring applies and is planned in DESIGN.md section 6"} for p in missing],
    }
    json.dump(manifest, open(core.VERIF / "MANIFEST.json", "w"), indent=1)
    print(f"MANIFEST.json: {len(checks)} checks, {len(missing)} not claimed")


if __name__ == "__main__":
    main()
