"""gev - runtime monitors for alcides/GeneticEngine (properties C01-C20).

Run through /verif/check; see /verif/DESIGN.md.
"""
