"""Grammar family (GF): seeded generator of grammar *descriptors* (plain JSON) and their
materialisation as class hierarchies in a synthetic module.

Type expressions (JSON lists):
  ["int"] ["float"] ["str"] ["bool"]            base types
  ["ref", name]                                  abstract type or concrete class
  ["list", T] ["tuple", T1, T2, ..] ["union", T1, T2, ..]
  ["ann", T, [mh, *params]]                      Annotated[T, mh(*params)]
  ["dep", T, sibling, shape, k]                  Annotated[T, Dependent(sibling, f_shape_k)]
"""

from __future__ import annotations

import itertools
import random as pyrandom
import os
import sys
import types
from abc import ABC
from dataclasses import dataclass
from typing import Annotated, Union

_counter = itertools.count()

INFEASIBLE = {"hits": 0}  # how often a dependent refinement made a production infeasible (forces backtracking)
BASES = {"int": int, "float": float, "str": str, "bool": bool}


# --------------------------------------------------------------------------------------------
# dependent-refinement shapes: the same table is used to build the library object and by the oracle


def dep_params(shape: str, k, value, *more):
    """Returns the refinement descriptor [mh, *params] that the dependency yields for a sibling value (or values, in
    the order the dependency NAMES them), or None when the dependency makes the production infeasible (library
    raises SynthesisException)."""
    if shape == "intrange_span":  # names "width,base": int in [base, base + width]  (not symmetric in its arguments)
        width, base = value, more[0]
        return ["IntRange", base, base + width + k]
    if shape == "intrange_up":  # int in [a, a+k]
        return ["IntRange", value, value + k]
    if shape == "intlist_pair":  # int in {a, a+k}
        return ["IntList", [value, value + k]]
    if shape == "varrange_n":  # name among v0..v(a-1); empty when a == 0 -> infeasible
        opts = [f"v{i}" for i in range(value)]
        return ["VarRange", opts] if opts else None
    if shape == "listsize_eq":  # list of exactly a (+k) elements
        return ["ListSizeBetween", value, value + k]
    raise ValueError(shape)


CALLER_LISTS: list = []  # option lists handed to VarRange / IntList (cleared by the driver that wants to use them)


def build_mh(desc):
    from geneticengine.grammar.metahandlers.floats import FloatList, FloatRange
    from geneticengine.grammar.metahandlers.ints import IntervalRange, IntList, IntRange
    from geneticengine.grammar.metahandlers.lists import ListSizeBetween, ListSizeBetweenWithoutListOperations
    from geneticengine.grammar.metahandlers.strings import StringSizeBetween, WeightedStringHandler
    from geneticengine.grammar.metahandlers.vars import VarRange

    name, *p = desc
    if name == "IntRange":
        return IntRange(p[0], p[1])
    if name == "IntList":
        CALLER_LISTS.append(list(p[0]))  # the list object the CALLER keeps (and may go on using for the next experiment)
        return IntList(CALLER_LISTS[-1])
    if name == "FloatRange":
        return FloatRange(p[0], p[1])
    if name == "FloatList":
        return FloatList(list(p[0]))
    if name == "VarRange":
        CALLER_LISTS.append(list(p[0]))
        return VarRange(CALLER_LISTS[-1])
    if name == "ListSizeBetween":
        return ListSizeBetween(p[0], p[1])
    if name == "LSBWLO":
        return ListSizeBetweenWithoutListOperations(p[0], p[1])
    if name == "StringSizeBetween":
        return StringSizeBetween(p[0], p[1], p[2])
    if name == "WeightedString":
        import numpy as np

        return WeightedStringHandler(np.array(p[0]), list(p[1]))
    if name == "IntervalRange":
        return IntervalRange(p[0], p[1], p[2])
    if name == "PassThrough":
        return passthrough_class()()
    raise ValueError(name)


_PT: dict = {}


def passthrough_class():
    """A user-defined refinement that refines nothing: the position is generated like the plain type (same shape as
    NoOp in tests/core/usable_grammar_test.py). Built lazily: the library is importable only after setup_paths()."""
    if "cls" not in _PT:
        from geneticengine.grammar.metahandlers.base import MetaHandlerGenerator

        class PassThrough(MetaHandlerGenerator):
            def validate(self, v) -> bool:
                return True

            def generate(self, random, grammar, base_type, rec, dependent_values, parent_values=None):
                return rec(base_type)

            def __class_getitem__(cls, args):
                return cls

            def __repr__(self):
                return "PassThrough"

        _PT["cls"] = PassThrough
    return _PT["cls"]


def build_type(t, ns):
    from geneticengine.grammar.metahandlers.dependent import Dependent

    k = t[0]
    if k in BASES:
        return BASES[k]
    if k == "ref":
        return ns[t[1]]
    if k == "list":
        return list[build_type(t[1], ns)]
    if k == "tuple":
        return tuple[tuple(build_type(x, ns) for x in t[1:])]
    if k == "union":
        return Union[tuple(build_type(x, ns) for x in t[1:])]
    if k == "ann":
        return Annotated[build_type(t[1], ns), build_mh(t[2])]
    if k == "dep":
        shape, kk = t[3], t[4]

        def f(value, *more, shape=shape, kk=kk):
            d = dep_params(shape, kk, value, *more)
            if d is None:
                INFEASIBLE["hits"] += 1
                from geneticengine.grammar.metahandlers.vars import VarRange

                return VarRange([])  # raises the library's SynthesisException
            return build_mh(d)

        return Annotated[build_type(t[1], ns), Dependent(t[2], f)]
    raise ValueError(t)


@dataclass
class Built:
    desc: dict
    module: types.ModuleType
    ns: dict  # name -> class
    classes: list  # considered subtypes, in descriptor order
    start: type
    field_types: dict  # class name -> [(field name, type expr)]

    def dispose(self):
        sys.modules.pop(self.module.__name__, None)


def _py_preset(desc) -> Built:
    """A hand-built hierarchy whose own metahandler hands initial values to the production it creates
    (rec(T, initial_values=...), as in tests/representations/dependent_types_context_test.py). Below the preset
    production sit productions with a SAME-NAMED field of another type."""
    from abc import ABC as _ABC

    from geneticengine.grammar.metahandlers.base import MetaHandlerGenerator
    from geneticengine.grammar.metahandlers.ints import IntRange
    from geneticengine.grammar.metahandlers.vars import VarRange

    modname = f"gev_dyn_{next(_counter)}_{desc.get('name', 'py')}"
    mod = types.ModuleType(modname)
    sys.modules[modname] = mod

    class Preset(MetaHandlerGenerator):
        def __init__(self, **vals):
            self.vals = vals

        def generate(self, random, grammar, base_type, rec, dependent_values):
            return rec(base_type, initial_values=dict(self.vals))

        def validate(self, v):
            return True

        def __repr__(self):
            return f"Preset({self.vals})"

    # (this module uses postponed annotations, so the classes are assembled from real type objects, as in materialise)
    def mk(name, bases, fields):
        cls = type(name, bases, {"__module__": modname, "__qualname__": name})
        cls.__annotations__ = dict(fields)
        return cls

    Expr = type("Expr", (_ABC,), {"__module__": modname})
    Name = mk("Name", (Expr,), [("value", Annotated[str, VarRange(["x", "y"])])])
    Num = mk("Num", (Expr,), [("n", Annotated[int, IntRange(0, 3)])])
    Both = mk("Both", (Expr,), [("left", Expr), ("right", Expr)])
    Many = mk("Many", (Expr,), [("items", list[Expr])])
    Scaled = mk("Scaled", (Expr,), [("value", int), ("inner", Expr)])
    Program = mk("Program", (), [("body", Annotated[Scaled, Preset(value=1)]), ("other", Expr)])
    ns = {}
    for c in (Expr, Name, Num, Both, Many, Scaled, Program):
        if c is not Expr:
            dataclass(c)
        setattr(mod, c.__name__, c)
        ns[c.__name__] = c
    return Built(desc, mod, ns, [Name, Num, Both, Many, Scaled, Program], Program, {})


def _py_context(desc) -> Built:
    """The documented context idiom (tests/representations/dependent_types_context_test.py): a user metahandler hands a
    list of names to the production it creates through `initial_values`. Here the owner keeps ONE GengyList (a prelude
    of names that grows while the session goes on) and hands that same object over every time: what the library puts
    into a program has to be the program's own."""
    from abc import ABC as _ABC

    from geneticengine.grammar.metahandlers.base import MetaHandlerGenerator
    from geneticengine.grammar.metahandlers.ints import IntRange
    from geneticengine.solutions.tree import GengyList

    modname = f"gev_dyn_{next(_counter)}_{desc.get('name', 'py')}"
    mod = types.ModuleType(modname)
    sys.modules[modname] = mod

    def mk(name, bases, fields):
        cls = type(name, bases, {"__module__": modname, "__qualname__": name})
        cls.__annotations__ = dict(fields)
        return cls

    Expr = type("Expr", (_ABC,), {"__module__": modname})
    prelude = GengyList(Expr, [])  # the owner's list (the session appends expressions the library itself created)

    class Context(MetaHandlerGenerator):
        def generate(self, random, grammar, base_type, rec, dependent_values):
            return rec(base_type, initial_values={"names": prelude})

        def validate(self, v):
            return True

        def __repr__(self):
            return "Context"

    Num = mk("Num", (Expr,), [("n", Annotated[int, IntRange(0, 3)])])
    Pair = mk("Pair", (Expr,), [("l", Expr), ("r", Expr)])
    Scope = mk("Scope", (), [("names", list[Expr]), ("body", Expr)])
    Program = mk("Program", (), [("scope", Annotated[Scope, Context()]), ("k", Annotated[int, IntRange(0, 1)])])
    ns = {"prelude": prelude}
    for c in (Expr, Num, Pair, Scope, Program):
        if c is not Expr:
            dataclass(c)
        setattr(mod, c.__name__, c)
        ns[c.__name__] = c
    return Built(desc, mod, ns, [Num, Pair, Scope, Program], Program, {})


PYTHON_GRAMMARS = {"preset": _py_preset, "context": _py_context}
FIXED_PYTHON = [{"name": "py_preset", "python": "preset", "abstracts": [], "prods": [], "start": "Program"}]


def materialise(desc: dict) -> Built:
    """Builds fresh classes (weights live on the classes, so every case gets its own)."""
    from geneticengine.grammar.decorators import abstract, weight

    if desc.get("python"):
        return PYTHON_GRAMMARS[desc["python"]](desc)

    if os.environ.get("GEV_FORCE_STRING_ANNOTATIONS"):  # exploration switch (never set by a registered command)
        desc = dict(desc, _string_annotations=True)
    modname = f"gev_dyn_{next(_counter)}_{desc.get('name', 'g')}"
    mod = types.ModuleType(modname)
    sys.modules[modname] = mod
    ns: dict = {}
    # 1. abstract types
    for a in desc["abstracts"]:
        parent = ns[a["parent"]] if a.get("parent") else None
        if parent is None and a.get("style", "abc") == "abc":
            cls = type(a["name"], (ABC,), {"__module__": modname})
        elif parent is None:
            cls = abstract(type(a["name"], (), {"__module__": modname}))
        else:
            cls = abstract(type(a["name"], (parent,), {"__module__": modname}))
        if a.get("weight") is not None:  # a nested abstract type is a production of its parent and may carry a weight
            cls = weight(a["weight"])(cls)
        ns[a["name"]] = cls
        setattr(mod, a["name"], cls)
    # 2. concrete shells
    for p in desc["prods"]:
        bases = (ns[p["parent"]],) if p.get("parent") else ()
        bases += tuple(ns[b] for b in p.get("also", []))  # further abstract bases (the library files a class under its FIRST base)
        if desc.get("_pad_between"):  # allocation pattern BETWEEN class definitions (relative addresses of the classes)
            ns.setdefault("__pad__", []).append(bytearray(int(desc["_pad_between"])))  # malloc'ed, like the class objects
        shown = p.get("qualname", p["name"])  # factory-made classes may share one (module, qualname)
        cls = type(shown, bases, {"__module__": modname, "__qualname__": shown})
        ns[p["name"]] = cls
        setattr(mod, p["name"], cls)
    # 3. fields: real type objects, or - desc["_string_annotations"], what `from __future__ import annotations` and quoted
    # forward references give - STRINGS that the library's typing.get_type_hints call evaluates in the module's namespace,
    # anew on every call (so a refinement is a new metahandler object, and an Annotated type a new type object, each time)
    field_types = {}
    thunks: list = []

    def _gev_type(i):
        return build_type(thunks[i], ns)

    if desc.get("_string_annotations"):
        setattr(mod, "_gev_type", _gev_type)
        setattr(mod, "_gev_thunks", thunks)
    for p in desc["prods"]:
        cls = ns[p["name"]]
        if desc.get("_string_annotations"):
            fields = []
            for fn, ft in p["fields"]:
                thunks.append(ft)
                fields.append((fn, ns[ft[1]].__name__ if ft[0] == "ref" and ns[ft[1]].__name__ == ft[1] else f"_gev_type({len(thunks) - 1})"))
        else:
            fields = [(fn, build_type(ft, ns)) for fn, ft in p["fields"]]
        field_types[p["name"]] = [(fn, ft) for fn, ft in p["fields"]]
        if p.get("dataclass", True):
            cls.__annotations__ = {fn: ty for fn, ty in fields}
            dataclass(cls)
        elif fields:
            names = [fn for fn, _ in fields]
            src = f"def __init__(self, {', '.join(names)}):\n" + "".join(f"    self.{n} = {n}\n" for n in names)
            loc: dict = {}
            exec(src, {}, loc)
            init = loc["__init__"]
            init.__annotations__ = {fn: ty for fn, ty in fields}
            init.__qualname__ = f"{p['name']}.__init__"
            cls.__init__ = init
        if p.get("weight") is not None:
            weight(p["weight"])(cls)
    classes = [ns[n] for n in desc.get("considered", [p["name"] for p in desc["prods"]] + [a["name"] for a in desc["abstracts"]])]
    return Built(desc, mod, ns, classes, ns[desc["start"]], field_types)


def reordered(desc: dict, rng, move_start: bool = True) -> dict:
    """The same classes handed to extract_grammar in another ORDER, and (sometimes) entered at a nested abstract
    class instead of the root: registration order is an input like any other."""
    if desc.get("python"):
        return desc
    d = dict(desc)
    names = [p["name"] for p in desc["prods"]] + [a["name"] for a in desc["abstracts"]]
    order = list(desc.get("considered", names))
    rng.shuffle(order)
    d["considered"] = order
    tag = "~o"
    nested = [a["name"] for a in desc["abstracts"] if a.get("parent") and any(p.get("parent") == a["name"] for p in desc["prods"])]
    if move_start and nested and rng.random() < 0.5:
        d["start"] = rng.choice(nested)
        tag += "s"
    d["name"] = desc["name"] + tag
    return d


def extract(b: Built):
    from geneticengine.grammar.grammar import extract_grammar

    return extract_grammar(b.classes, b.start, expansion_depthing=bool(b.desc.get("expansion", False)))


# --------------------------------------------------------------------------------------------
# descriptor generator


def _small_mh(rng, base):
    """Refinements with boundary-biased parameters."""
    if base == "int":
        c = rng.random()
        if c < 0.55:
            lo = rng.choice([-3, -1, 0, 0, 1, 5])
            hi = lo + rng.choice([0, 0, 1, 2, 3, 2000])
            return ["IntRange", lo, hi]
        return ["IntList", rng.choice([[7], [0, 1], [-2, 4, 9], [3, 3]])]
    if base == "float":
        if rng.random() < 0.6:
            if rng.random() < 0.35:  # int-literal bounds are legal (geml/grammars/sgp.py: FloatRange(0, 9)); values must still be floats
                lo = rng.choice([0, 1, 2, -3])
                return ["FloatRange", lo, lo + rng.choice([0, 1, 4, 9])]
            lo = rng.choice([-1.5, 0.0, 0.25])
            return ["FloatRange", lo, lo + rng.choice([0.0, 0.5, 10.0])]
        return ["FloatList", rng.choice([[0.5], [0.0, 1.0], [-2.5, 2.5, 7.0]])]
    if base == "str":
        c = rng.random()
        if c < 0.4:
            return ["VarRange", rng.choice([["x"], ["x", "y"], ["a", "b", "c"]])]
        if c < 0.8:
            lo = rng.choice([0, 1, 2])
            return ["StringSizeBetween", lo, lo + rng.choice([0, 1, 3]), rng.choice(["a", "ab", "xyz"])]
        n = rng.choice([1, 2, 3])
        alpha = rng.choice([["a"], ["a", "c"], ["A", "C", "G", "T"]])
        row = [1.0 / len(alpha)] * len(alpha)
        if len(alpha) > 1 and rng.random() < 0.5:
            row = [0.0] + [1.0 / (len(alpha) - 1)] * (len(alpha) - 1)
        return ["WeightedString", [row] * n, alpha]
    raise ValueError(base)


def _gen_type(rng, names_abs, names_conc, depth, profile, siblings):
    """One field type. `siblings` = [(name, typeexpr)] of earlier fields (for dependent refinements)."""
    finite = profile == "finite"
    r = rng.random()
    if depth == 2:
        r *= 0.68  # inside containers: simple types, occasionally one more list level
    elif depth > 2:
        r *= 0.639
    refs = names_abs + names_conc
    if r < 0.30 and refs:
        ref = ["ref", rng.choice(names_abs if (names_abs and rng.random() < 0.8) else refs)]
        # a user-defined refinement on a class-typed position (the repository's own tests do this: Annotated[D, NoOp],
        # Annotated[Expr, Dependent(...)]); decided off the main stream so that existing families keep their shape
        if profile == "general" and depth <= 1 and pyrandom.Random(repr(ref) + str(len(siblings)) + str(r)).random() < 0.12:
            return ["ann", ref, ["PassThrough"]]
        return ref
    if r < 0.50:
        base = rng.choice(["int", "int", "float", "str"] if not finite else ["int", "str"])
        if finite and base == "int":
            lo = rng.choice([0, 1, -1])
            return ["ann", ["int"], rng.choice([["IntRange", lo, lo + rng.choice([0, 1, 2])], ["IntList", rng.choice([[7], [0, 1], [-2, 4, 9]])]])]
        if finite and base == "str":
            return ["ann", ["str"], ["VarRange", rng.choice([["x"], ["x", "y"]])]]
        return ["ann", [base], _small_mh(rng, base)]
    if r < 0.64:
        if finite:
            return ["bool"]
        return [rng.choice(["int", "float", "bool", "bool", "str"])]
    if r < 0.76:  # list
        inner = _gen_type(rng, names_abs, names_conc, depth + 1, profile, [])
        if len(refs) >= 2 and rng.random() < 0.3:  # wrappers nested in wrappers: list[Union[..]], list[tuple[..]]
            ks = rng.sample(refs, 2)
            inner = [rng.choice(["union", "union", "tuple"]), ["ref", ks[0]], ["ref", ks[1]]]
        c = rng.random()
        if finite or c < 0.6:
            lo = rng.choice([0, 0, 1, 2]) if not finite else rng.choice([0, 1])
            hi = lo + (rng.choice([0, 1, 2]) if not finite else rng.choice([0, 1]))
            return ["ann", ["list", inner], [rng.choice(["ListSizeBetween", "LSBWLO"]), lo, hi]]
        return ["list", inner]
    if r < 0.84:  # tuple
        n = rng.choice([1, 2, 2, 3]) if not finite else 2
        members = [_gen_type(rng, names_abs, names_conc, depth + 1, profile, []) for _ in range(n)]
        # the same member type more than once (tuple[int, int], tuple[A, bool, A]); decided from the members themselves so
        # that the main stream of the generator is not shifted
        if n <= 2 and pyrandom.Random(repr(members)).random() < 0.4:
            members.append(members[0])
        return ["tuple"] + members
    if r < 0.92 and len(refs) >= 2:  # union of productions / of refined ints
        if rng.random() < 0.7:
            ks = rng.sample(refs, 2)
            return ["union", ["ref", ks[0]], ["ref", ks[1]]]
        return ["union", ["ann", ["int"], ["IntRange", 0, 1]], ["ann", ["int"], ["IntList", [7, 9]]]]
    if r < 0.96 and not finite:
        lo = rng.choice([1, 2])
        hi = lo + rng.choice([1, 2, 5])
        return ["ann", ["tuple", ["int"], ["int"]], ["IntervalRange", lo, hi, hi + rng.choice([1, 2, 10])]]
    # dependent refinement on an earlier int sibling with a small range
    cands = [(n, t) for n, t in siblings if t[0] == "ann" and t[1] == ["int"] and t[2][0] == "IntRange" and 0 <= t[2][1] and t[2][2] <= 4]
    if len(cands) >= 2 and not finite and rng.random() < 0.5:
        (n1, _), (n2, _) = sorted(rng.sample(cands, 2))
        return ["dep", ["int"], f"{n2},{n1}", "intrange_span", rng.choice([0, 1])]  # "f1,f0": declared order matters
    if cands and not finite:
        n, t = rng.choice(cands)
        shape = rng.choice(["intrange_up", "intlist_pair", "varrange_n", "listsize_eq"] if profile == "dep" else ["intrange_up", "intlist_pair", "listsize_eq"])
        if shape in ("intrange_up", "intlist_pair"):
            return ["dep", ["int"], n, shape, rng.choice([0, 1, 3])]
        if shape == "varrange_n":
            return ["dep", ["str"], n, shape, 0]
        inner = ["ref", rng.choice(refs)] if refs and rng.random() < 0.5 else ["ann", ["int"], ["IntRange", 0, 2]]
        return ["dep", ["list", inner], n, shape, rng.choice([0, 1])]
    return ["ann", ["int"], ["IntRange", 0, rng.choice([0, 1, 3])]]


def gen_descriptor(seed, profile="general") -> dict:
    """profile: general | finite (finite-choice fields only) | dep (dependent refinements that can fail)
    | weighted."""
    rng = pyrandom.Random(f"{profile}-{seed}")
    n_abs = rng.choice([1, 1, 2, 2, 3])
    abstracts = []
    for i in range(n_abs):
        parent = None
        style = rng.choice(["abc", "decorator"])
        if i > 0 and rng.random() < 0.4:
            parent = f"A{rng.randrange(i)}"
            style = "decorator"
        abstracts.append({"name": f"A{i}", "parent": parent, "style": style})
    names_abs = [a["name"] for a in abstracts]
    n_prod = rng.randint(max(2, n_abs), 7 if profile != "finite" else 5)
    prods = []
    names_conc = []
    # every abstract type gets a field-less (terminal) production first, so the grammar is productive
    for i, a in enumerate(names_abs):
        prods.append({"name": f"T{i}", "parent": a, "fields": [], "dataclass": rng.random() < 0.8})
    weighted = profile == "weighted" or rng.random() < 0.15
    standalone = rng.random() < 0.25
    for j in range(n_prod):
        parent = rng.choice(names_abs)
        if standalone and j == 0:
            parent = None
        nf = rng.choice([0, 1, 1, 2, 2, 3]) if parent else rng.choice([1, 2, 3])
        fields = []
        for f in range(nf):
            fields.append([f"f{f}", _gen_type(rng, names_abs, names_conc, 1, profile, fields)])
        if profile == "dep" and nf >= 1 and rng.random() < 0.6:
            fields = [["f0", ["ann", ["int"], ["IntRange", 0, rng.choice([1, 2])]]], ["f1", ["dep", ["str"], "f0", "varrange_n", 0]]] + [[f"f{2 + i}", t] for i, (_, t) in enumerate(fields[:1])]
        dc = rng.random() < 0.85
        prods.append({"name": f"P{j}", "parent": parent, "fields": fields, "dataclass": dc})
        names_conc.append(f"P{j}")
    # drop terminal productions for some abstract types that have another field-less production? keep simple.
    if weighted:
        for p in prods:
            if p.get("parent") and rng.random() < 0.6:  # weights are declared on productions of an abstract type
                p["weight"] = rng.choice([0, 0.5, 1, 2, 3, 10])
        # never all productions of a rule at weight 0
        for a in names_abs:
            ps = [p for p in prods if p.get("parent") == a]
            if ps and all(p.get("weight") == 0 for p in ps):
                ps[0]["weight"] = 1
    start = rng.choice([names_abs[0]] * 3 + [p["name"] for p in prods if p["fields"]][:1])
    for p in prods:  # a start symbol that is itself a zero-weight production is not a meaningful declaration
        if p["name"] == start and p.get("weight") == 0:
            p["weight"] = 1
    if rng.random() < 0.2:
        # a production that mentions ITSELF (not its abstract parent) inside a union or a list: a self-loop of the
        # derivation graph. The union keeps it productive; list[Self] alone has no finite minimum depth in the library.
        # (never the field-less T* productions: every abstract type keeps one always-feasible shallow alternative)
        tgt = rng.choice([p for p in prods if p.get("parent") and p["name"].startswith("P")] or [p for p in prods if p["name"].startswith("P")])
        leafs = [p["name"] for p in prods if not p["fields"] and p["name"] != tgt["name"]]
        if leafs and len(tgt["fields"]) < 3:
            shape = rng.choice(["union", "union", "list-union", "tuple-union"])
            u = ["union", ["ref", tgt["name"]], ["ref", rng.choice(leafs)]]
            t = u if shape == "union" else (["ann", ["list", u], ["ListSizeBetween", 0, 2]] if shape == "list-union" else ["tuple", u, ["bool"]])
            tgt["fields"].append([f"f{len(tgt['fields'])}", t])
    desc = {"name": f"{profile}{seed}", "abstracts": abstracts, "prods": prods, "start": start, "expansion": False}
    if profile == "unproductive-part":
        # an abstract type without productions, mentioned by one production: that production can never be completed,
        # the rest of the grammar is fine (Grammar.get_max_node_depth() is "infinite" for such grammars)
        desc["abstracts"].append({"name": "AX", "parent": None, "style": "abc"})
        desc["prods"].append({"name": "PX", "parent": names_abs[0], "fields": [["f0", ["ref", "AX"]], ["f1", ["ref", names_abs[0]]]], "dataclass": True})
    if rng.random() < 0.3:  # an unreachable class
        desc["abstracts"].append({"name": "AU", "parent": None, "style": "abc"})
        desc["prods"].append({"name": "PU", "parent": "AU", "fields": [["f0", ["int"]]], "dataclass": True})
    return desc


# hand-written members that pin the shapes behind known defect mechanisms (always part of the family)
FIXED = [
    {  # tuple / bool / union / list fields at the top level
        "name": "fx_kinds",
        "abstracts": [{"name": "Root", "parent": None, "style": "abc"}],
        "prods": [
            {"name": "Leaf", "parent": "Root", "fields": []},
            {"name": "Lit", "parent": "Root", "fields": [["v", ["ann", ["int"], ["IntRange", 3, 9]]]]},
            {"name": "B", "parent": "Root", "fields": [["b", ["bool"]]]},
            {"name": "Tu", "parent": "Root", "fields": [["t", ["tuple", ["int"], ["bool"]]]]},
            {"name": "Tu2", "parent": "Root", "fields": [["t", ["tuple", ["int"], ["int"]]]]},
            {"name": "Tu3", "parent": "Root", "fields": [["t", ["tuple", ["ref", "Root"], ["bool"], ["ref", "Root"]]]]},
            {"name": "U", "parent": "Root", "fields": [["u", ["union", ["ref", "Plus"], ["ref", "Leaf"]]]]},
            {"name": "Plus", "parent": "Root", "fields": [["l", ["ref", "Root"]], ["r", ["ref", "Root"]]]},
            {"name": "L", "parent": "Root", "fields": [["items", ["list", ["ref", "Root"]]]]},
            {"name": "AL", "parent": "Root", "fields": [["xs", ["ann", ["list", ["ref", "Root"]], ["ListSizeBetween", 1, 2]]]]},
        ],
        "start": "Root",
    },
    {  # list-of-abstract at the depth frontier
        "name": "fx_listfrontier",
        "abstracts": [{"name": "Root", "parent": None, "style": "decorator"}],
        "prods": [
            {"name": "Leaf", "parent": "Root", "fields": []},
            {"name": "L", "parent": "Root", "fields": [["items", ["list", ["ref", "Root"]]]]},
        ],
        "start": "Root",
    },
    {  # concrete start symbol, recursion through an abstract field
        "name": "fx_concrete_start",
        "abstracts": [{"name": "E", "parent": None, "style": "abc"}],
        "prods": [
            {"name": "Z", "parent": "E", "fields": []},
            {"name": "S", "parent": "E", "fields": [["e", ["ref", "E"]]]},
            {"name": "Top", "parent": None, "fields": [["a", ["ref", "E"]], ["n", ["ann", ["int"], ["IntRange", 0, 2]]]]},
            {"name": "Nest", "parent": "E", "fields": [["t", ["ref", "Top"]]]},
        ],
        "start": "Top",
    },
    {  # dependent pair as in tests/representations/dependent_types_test.py
        "name": "fx_dependent",
        "abstracts": [{"name": "R", "parent": None, "style": "abc"}],
        "prods": [
            {"name": "Pair", "parent": "R", "fields": [["a", ["ann", ["int"], ["IntRange", 0, 3]]], ["b", ["dep", ["int"], "a", "intrange_up", 1]], ["c", ["int"]]]},
            {"name": "Named", "parent": "R", "fields": [["n", ["ann", ["int"], ["IntRange", 0, 2]]], ["name", ["dep", ["str"], "n", "varrange_n", 0]]]},
            {"name": "Two", "parent": "R", "fields": [["x", ["ref", "R"]], ["y", ["ref", "R"]]]},
            {"name": "Sized", "parent": "R", "fields": [["n", ["ann", ["int"], ["IntRange", 0, 2]]], ["xs", ["dep", ["list", ["ann", ["int"], ["IntRange", 0, 5]]], "n", "listsize_eq", 0]]]},
            {"name": "Span", "parent": "R", "fields": [["base", ["ann", ["int"], ["IntRange", 0, 3]]], ["width", ["ann", ["int"], ["IntRange", 0, 2]]], ["x", ["dep", ["int"], "width,base", "intrange_span", 0]]]},
            {"name": "End", "parent": "R", "fields": []},
        ],
        "start": "R",
    },
    {  # nested abstract layers + strings + floats + interval
        "name": "fx_layers",
        "abstracts": [{"name": "Expr", "parent": None, "style": "abc"}, {"name": "Num", "parent": "Expr", "style": "decorator"}],
        "prods": [
            {"name": "One", "parent": "Num", "fields": []},
            {"name": "F", "parent": "Num", "fields": [["v", ["ann", ["float"], ["FloatRange", -1.5, 2.0]]]]},
            {"name": "Name", "parent": "Expr", "fields": [["s", ["ann", ["str"], ["StringSizeBetween", 1, 3, "ab"]]]]},
            {"name": "W", "parent": "Expr", "fields": [["w", ["ann", ["str"], ["WeightedString", [[0.0, 1.0], [0.5, 0.5]], ["a", "c"]]]]]},
            {"name": "Win", "parent": "Expr", "fields": [["i", ["ann", ["tuple", ["int"], ["int"]], ["IntervalRange", 1, 2, 3]]]]},
            {"name": "Add", "parent": "Expr", "fields": [["l", ["ref", "Expr"]], ["r", ["ref", "Num"]]]},
            {"name": "Neg", "parent": "Num", "fields": [["e", ["ref", "Expr"]]], "dataclass": False},
            {"name": "Note", "parent": "Expr", "fields": [["e", ["ann", ["ref", "Expr"], ["PassThrough"]]], ["n", ["ann", ["ref", "Num"], ["PassThrough"]]]]},
        ],
        "start": "Expr",
    },
]


FIXED.append(
    {  # wrappers nested in wrappers; members of different depth; int-literal float bounds
        "name": "fx_nested",
        "abstracts": [{"name": "Stmt", "parent": None, "style": "abc"}, {"name": "Expr", "parent": None, "style": "abc"}],
        "prods": [
            {"name": "Ret", "parent": "Stmt", "fields": [["e", ["ref", "Expr"]]]},
            {"name": "Block", "parent": "Stmt", "fields": [["body", ["ann", ["list", ["union", ["ref", "Expr"], ["ref", "Stmt"]]], ["ListSizeBetween", 1, 2]]]]},
            {"name": "Seq", "parent": "Stmt", "fields": [["items", ["list", ["tuple", ["ref", "Expr"], ["ref", "Stmt"]]]]]},
            {"name": "Lit", "parent": "Expr", "fields": [["v", ["ann", ["int"], ["IntRange", 0, 1]]]]},
            {"name": "Num", "parent": "Expr", "fields": [["x", ["ann", ["float"], ["FloatRange", 0, 9]]], ["y", ["ann", ["float"], ["FloatRange", 2, 2]]]]},
            {"name": "Var", "parent": "Expr", "fields": [["n", ["ann", ["str"], ["VarRange", ["x", "y"]]]]]},
        ],
        "start": "Stmt",
    },
)


FIXED.append(
    {  # refinements whose repr() coincides although their parameters differ (alphabet / probability matrix)
        "name": "fx_lookalikes",
        "abstracts": [{"name": "R", "parent": None, "style": "abc"}],
        "prods": [
            {"name": "Dna", "parent": "R", "fields": [["s", ["ann", ["str"], ["StringSizeBetween", 2, 4, "ACGT"]]]]},
            {"name": "Bits", "parent": "R", "fields": [["s", ["ann", ["str"], ["StringSizeBetween", 2, 4, "01"]]]]},
            {"name": "W1", "parent": "R", "fields": [["w", ["ann", ["str"], ["WeightedString", [[1.0, 0.0], [1.0, 0.0]], ["a", "c"]]]]]},
            {"name": "W2", "parent": "R", "fields": [["w", ["ann", ["str"], ["WeightedString", [[0.0, 1.0], [0.0, 1.0]], ["a", "c"]]]]]},
            {"name": "Both", "parent": "R", "fields": [["x", ["ref", "R"]], ["t", ["ann", ["str"], ["StringSizeBetween", 2, 4, "xyz"]]], ["u", ["list", ["ann", ["str"], ["StringSizeBetween", 2, 4, "01"]]]]]},
            {"name": "Nil", "parent": "R", "fields": []},
        ],
        "start": "R",
    },
)


def _deps_in(t):
    """Every dependent refinement in a field's type expression, at any nesting (member of a tuple, element of a list)."""
    if isinstance(t, list) and t and isinstance(t[0], str):
        if t[0] == "dep":
            yield t
        for x in t[1:]:
            yield from _deps_in(x)


def retyped(desc: dict, rng) -> dict | None:
    """A copy of the descriptor in which ONE field of one production is declared differently (the documented idiom
    `Prod.__init__.__annotations__[field] = NewType` followed by a new extraction). None if nothing suitable."""
    import copy

    if desc.get("python"):
        return None
    d = copy.deepcopy(desc)
    cands = []
    leafs = [p["name"] for p in d["prods"] if not p["fields"]]
    for p in d["prods"]:
        depended_on = {n for g in p["fields"] for dep in _deps_in(g[1]) for n in dep[2].split(",")}
        for f in p["fields"]:
            t = f[1]
            if f[0] in depended_on:
                continue  # a sibling's refinement is computed from this field: re-declaring it would be a user error
            if t == ["int"]:
                cands.append((f, ["float"]))
            elif t == ["float"] or t == ["bool"]:
                cands.append((f, ["int"]))
            elif t[0] == "ann" and t[1] == ["int"] and t[2][0] == "IntRange":
                cands.append((f, ["ann", ["int"], ["IntRange", t[2][2] + 5, t[2][2] + 7]]))
                cands.append((f, ["ann", ["float"], ["FloatRange", 0.5, 1.5]]))
            elif t[0] == "ann" and t[1] == ["str"] and t[2][0] == "VarRange":
                cands.append((f, ["ann", ["str"], ["VarRange", ["p", "q"]]]))
            elif t[0] == "ref" and leafs and any(a["name"] == t[1] for a in d["abstracts"]):
                cands.append((f, ["ref", rng.choice(leafs)]))  # narrowed from an abstract type to one concrete production
    if not cands:
        return None
    f, nt = rng.choice(cands)
    f[1] = nt
    d["name"] = desc["name"] + "~retyped"
    return d


def apply_retype(built: Built, desc2: dict) -> Built:
    """Re-declares the changed fields on the EXISTING classes (same class objects, new annotations)."""
    for p_old, p_new in zip(built.desc["prods"], desc2["prods"]):
        cls = built.ns[p_new["name"]]
        for (fn, t_old), (_, t_new) in zip(p_old["fields"], p_new["fields"]):
            if t_old != t_new:
                if hasattr(built.module, "_gev_thunks"):  # a grammar declared with string annotations is re-declared with one
                    built.module._gev_thunks.append(t_new)
                    cls.__init__.__annotations__[fn] = f"_gev_type({len(built.module._gev_thunks) - 1})"
                else:
                    cls.__init__.__annotations__[fn] = build_type(t_new, built.ns)
                if p_new.get("dataclass", True) and hasattr(cls, "__annotations__"):
                    cls.__annotations__[fn] = cls.__init__.__annotations__[fn]
    return Built(desc2, built.module, built.ns, built.classes, built.start, {p["name"]: [(fn, ft) for fn, ft in p["fields"]] for p in desc2["prods"]})


FIXED.append(
    {  # weights x depth analysis: the zero-weight production is the strictly shallowest of its rule (the minimum depth
        # of a rule is taken over ALL its productions, so limits down to it must stay usable), at two levels
        "name": "fx_zero_weight_shallowest",
        "abstracts": [{"name": "Expr", "parent": None, "style": "abc"}, {"name": "Unit", "parent": None, "style": "abc"}],
        "prods": [
            {"name": "Zero", "parent": "Expr", "fields": [], "weight": 0},
            {"name": "Scaled", "parent": "Expr", "fields": [["k", ["ann", ["int"], ["IntRange", 0, 3]]], ["u", ["ref", "Unit"]]], "weight": 2},
            {"name": "Neg", "parent": "Expr", "fields": [["e", ["ref", "Expr"]]], "weight": 1},
            {"name": "Add", "parent": "Expr", "fields": [["l", ["ref", "Expr"]], ["r", ["ref", "Expr"]]], "weight": 1},
            {"name": "One", "parent": "Unit", "fields": [], "weight": 0.0},
            {"name": "Box", "parent": "Unit", "fields": [["u", ["ref", "Unit"]], ["n", ["bool"]]], "weight": 3},
        ],
        "start": "Expr",
    }
)


FIXED.append(
    {  # concrete, recursive start symbol below a holder with several start-typed children (statement blocks)
        "name": "fx_blocks",
        "abstracts": [{"name": "Stmt", "parent": None, "style": "abc"}],
        "prods": [
            {"name": "Block", "parent": None, "fields": [["stmt", ["ref", "Stmt"]]]},
            {"name": "Assign", "parent": "Stmt", "fields": [["var", ["ann", ["int"], ["IntRange", 0, 1000000]]], ["value", ["ann", ["int"], ["IntRange", 0, 1000000]]]]},
            {"name": "If", "parent": "Stmt", "fields": [["cond", ["ann", ["int"], ["IntRange", 0, 1000000]]], ["then", ["ref", "Block"]], ["orelse", ["ref", "Block"]]]},
            {"name": "Seq", "parent": "Stmt", "fields": [["items", ["ann", ["list", ["ref", "Block"]], ["ListSizeBetween", 2, 3]]]]},
        ],
        "start": "Block",
    }
)


FIXED.append(
    {  # rules with exactly ONE production that is infeasible in some contexts (n == 0 leaves no name to pick):
        # backtracking has nothing else to try there and must give up without touching the rule; one level is nested
        "name": "fx_single_rule",
        "abstracts": [{"name": "Expr", "parent": None, "style": "abc"}, {"name": "Slot", "parent": None, "style": "abc"}, {"name": "Outer", "parent": None, "style": "abc"}],
        "prods": [
            {"name": "Lit", "parent": "Expr", "fields": [["v", ["ann", ["int"], ["IntRange", 0, 9]]]]},
            {"name": "Use", "parent": "Expr", "fields": [["slot", ["ref", "Slot"]]]},
            {"name": "Deep", "parent": "Expr", "fields": [["o", ["ref", "Outer"]]]},
            {"name": "Add", "parent": "Expr", "fields": [["l", ["ref", "Expr"]], ["r", ["ref", "Expr"]]]},
            {"name": "Pick", "parent": "Slot", "fields": [["n", ["ann", ["int"], ["IntRange", 0, 2]]], ["name", ["dep", ["str"], "n", "varrange_n", 0]]]},
            {"name": "Shell", "parent": "Outer", "fields": [["inner", ["ref", "Slot"]]]},
        ],
        "start": "Expr",
    }
)


FIXED.append(
    {  # recursion that closes only through a ring of three categories: Num -> Len -> Seq -> Where -> Cond -> Positive -> Num
        "name": "fx_ring",
        "abstracts": [{"name": "Num", "parent": None, "style": "abc"}, {"name": "Seq", "parent": None, "style": "abc"}, {"name": "Cond", "parent": None, "style": "decorator"}],
        "prods": [
            {"name": "Lit", "parent": "Num", "fields": [["v", ["ann", ["int"], ["IntRange", 0, 9]]]]},
            {"name": "Len", "parent": "Num", "fields": [["s", ["ref", "Seq"]]]},
            {"name": "Empty", "parent": "Seq", "fields": []},
            {"name": "Where", "parent": "Seq", "fields": [["s", ["ref", "Seq"]], ["c", ["ref", "Cond"]]]},
            {"name": "Yes", "parent": "Cond", "fields": []},
            {"name": "Positive", "parent": "Cond", "fields": [["n", ["ref", "Num"]]]},
        ],
        "start": "Num",
    }
)


FIXED.append(
    {  # float refinements whose bounds do not add back exactly, degenerate ranges, and a range wider than the largest float
        "name": "fx_floats",
        "abstracts": [{"name": "Root", "parent": None, "style": "abc"}],
        "prods": [
            {"name": "A", "parent": "Root", "fields": [["v", ["ann", ["float"], ["FloatRange", -0.3, 0.1]]]]},
            {"name": "B", "parent": "Root", "fields": [["v", ["ann", ["float"], ["FloatRange", 0.9, 0.9]]], ["w", ["ann", ["float"], ["FloatRange", 0.1, 0.7]]]]},
            {"name": "C", "parent": "Root", "fields": [["v", ["ann", ["float"], ["FloatRange", -1e308, 1e308]]]]},
            {"name": "D", "parent": "Root", "fields": [["x", ["ref", "Root"]], ["y", ["ref", "Root"]]]},
            # a float list written with int literals among its options (examples/classification.py does this)
            {"name": "E", "parent": "Root", "fields": [["v", ["ann", ["float"], ["FloatList", [-1, -0.1, 0, 0.5, 1]]]]]},
        ],
        "start": "Root",
    }
)


FIXED.append(
    {  # two factory-made classes that share their (module, qualname); no abstract class at all, a concrete start symbol
        # whose name sorts after theirs: every NAME-based order of the symbols ties on the two
        "name": "fx_twins",
        "abstracts": [],
        "prods": [
            {"name": "zRoot", "parent": None, "fields": [["a", ["ref", "P1"]], ["b", ["ref", "P2"]], ["k", ["ann", ["int"], ["IntRange", 0, 5]]]]},
            {"name": "P1", "qualname": "Pair", "parent": None, "fields": [["x", ["ann", ["int"], ["IntRange", 0, 3]]]]},
            {"name": "P2", "qualname": "Pair", "parent": None, "fields": [["y", ["bool"]], ["z", ["bool"]]]},
        ],
        "start": "zRoot",
    }
)


FIXED.append(
    {  # possibly-empty refined lists over a CONCRETE element class whose fields are all built-in (no decider is consulted
        # when such an element is built), directly and one level further down
        "name": "fx_calls",
        "abstracts": [{"name": "Expr", "parent": None, "style": "abc"}],
        "prods": [
            {"name": "Lit", "parent": "Expr", "fields": [["v", ["ann", ["int"], ["IntRange", 0, 9]]]]},
            {"name": "Add", "parent": "Expr", "fields": [["l", ["ref", "Expr"]], ["r", ["ref", "Expr"]]]},
            {"name": "Call", "parent": "Expr", "fields": [["args", ["ann", ["list", ["ref", "Arg"]], ["ListSizeBetween", 0, 3]]]]},
            {"name": "Call2", "parent": "Expr", "fields": [["args", ["ann", ["list", ["ref", "Group"]], ["LSBWLO", 0, 2]]]]},
            {"name": "Arg", "parent": None, "fields": [["position", ["ann", ["int"], ["IntRange", 0, 3]]], ["value", ["float"]]]},
            {"name": "Group", "parent": None, "fields": [["first", ["ref", "Arg"]], ["flag", ["bool"]]]},
        ],
        "start": "Expr",
    }
)


FIXED.append(
    {  # a refinement stacked on an already refined alias: Annotated[Annotated[int, IntRange(0, 100)], IntList([5, 7])]
        "name": "fx_stacked",
        "abstracts": [{"name": "Root", "parent": None, "style": "abc"}],
        "prods": [
            {"name": "Leaf", "parent": "Root", "fields": []},
            {"name": "Pct", "parent": "Root", "fields": [["v", ["ann", ["ann", ["int"], ["IntRange", 0, 100]], ["IntList", [5, 7]]]]]},
            {"name": "Two", "parent": "Root", "fields": [["l", ["ref", "Root"]], ["r", ["ref", "Root"]]]},
        ],
        "start": "Root",
    }
)


def family(seed: int, n: int, profile="general", with_fixed=True):
    """Yields n descriptors (fixed members first)."""
    out = []
    if with_fixed:
        out.extend(FIXED)
        if profile == "general":
            out.extend(FIXED_PYTHON)
    i = 0
    while len(out) < n:
        out.append(gen_descriptor(seed * 100003 + i, profile))
        i += 1
    return out[:n]


FIXED.append(
    {  # a dependent refinement BELOW the field: member of a tuple, element of a plain list, element of a sized list (the
        # refinement still speaks about the siblings of the field it sits in)
        "name": "fx_dep_nested",
        "abstracts": [{"name": "R", "parent": None, "style": "abc"}],
        "prods": [
            {"name": "Leaf", "parent": "R", "fields": []},
            {"name": "InTuple", "parent": "R", "fields": [["lo", ["ann", ["int"], ["IntRange", 0, 2]]], ["pair", ["tuple", ["dep", ["int"], "lo", "intrange_up", 1], ["bool"]]]]},
            {"name": "InList", "parent": "R", "fields": [["lo", ["ann", ["int"], ["IntRange", 0, 2]]], ["xs", ["list", ["dep", ["int"], "lo", "intrange_up", 1]]]]},
            {"name": "InSized", "parent": "R", "fields": [["lo", ["ann", ["int"], ["IntRange", 0, 2]]], ["xs", ["ann", ["list", ["dep", ["int"], "lo", "intrange_up", 1]], ["ListSizeBetween", 1, 2]]]]},
            {"name": "Both", "parent": "R", "fields": [["l", ["ref", "R"]], ["r", ["ref", "R"]]]},
        ],
        "start": "R",
    }
)


FIXED.append(
    {  # a size-refined list whose ELEMENTS are lists of refined values (and a union with a refined member as element): under
        # string annotations every one of these compound element types is a new object each time it is resolved
        "name": "fx_list_of_refined_lists",
        "abstracts": [{"name": "R", "parent": None, "style": "abc"}],
        "prods": [
            {"name": "Leaf", "parent": "R", "fields": []},
            {"name": "Rows", "parent": "R", "fields": [["rows", ["ann", ["list", ["list", ["ann", ["str"], ["VarRange", ["x", "y"]]]]], ["LSBWLO", 1, 2]]]]},
            {"name": "Mixed", "parent": "R", "fields": [["xs", ["ann", ["list", ["union", ["ref", "Leaf"], ["ann", ["int"], ["IntRange", 0, 2]]]], ["ListSizeBetween", 1, 2]]]]},
            {"name": "Two", "parent": "R", "fields": [["l", ["ref", "R"]], ["r", ["ref", "R"]]]},
        ],
        "start": "R",
    }
)


FIXED.append(
    {  # unions offering a COMPOSITE member (a refined list, a plain list, a tuple) next to a single node: the deciders ask
        # the grammar for the minimum depth of such members while a program is being created
        "name": "fx_union_composite",
        "abstracts": [{"name": "Stmt", "parent": None, "style": "abc"}],
        "prods": [
            {"name": "Skip", "parent": "Stmt", "fields": []},
            {"name": "Block", "parent": "Stmt", "fields": [["body", ["union", ["ann", ["list", ["ref", "Stmt"]], ["ListSizeBetween", 1, 2]], ["ref", "Stmt"]]]]},
            {"name": "Both", "parent": "Stmt", "fields": [["p", ["union", ["tuple", ["ref", "Skip"], ["ref", "Stmt"]], ["ref", "Skip"]]]]},
            {"name": "Many", "parent": "Stmt", "fields": [["xs", ["union", ["list", ["ref", "Skip"]], ["ref", "Skip"]]], ["k", ["bool"]]]},
            {"name": "Tagged", "parent": "Stmt", "fields": [["t", ["union", ["tuple", ["ann", ["int"], ["IntRange", 0, 3]], ["ref", "Skip"]], ["ref", "Skip"]]]]},
        ],
        "start": "Stmt",
    }
)


FIXED.append(
    {  # sized lists (both size refinements, minimum >= 1, minimum < maximum) whose ELEMENTS can be impossible to synthesise:
        # a dependent refinement that offers no value for some sibling values (varrange_n with n == 0). Such a production
        # cannot be completed with that sibling value - what the library delivers must still honour the declared sizes
        "name": "fx_dep_in_sized_lists",
        "abstracts": [{"name": "Stmt", "parent": None, "style": "abc"}],
        "prods": [
            {"name": "Skip", "parent": "Stmt", "fields": []},
            {"name": "Uses", "parent": "Stmt", "fields": [["n", ["ann", ["int"], ["IntRange", 0, 2]]], ["uses", ["ann", ["list", ["dep", ["str"], "n", "varrange_n", 0]], ["LSBWLO", 1, 3]]]]},
            {"name": "Uses2", "parent": "Stmt", "fields": [["n", ["ann", ["int"], ["IntRange", 0, 1]]], ["uses", ["ann", ["list", ["dep", ["str"], "n", "varrange_n", 0]], ["ListSizeBetween", 2, 3]]]]},
            # (always completable, whatever is drawn for n: in the sub-languages without Skip the impossibility above is a matter
            # of the values drawn, and a creation that runs out of alternatives for that reason is no statement's business)
            {"name": "Uses3", "parent": "Stmt", "fields": [["n", ["ann", ["int"], ["IntRange", 1, 2]]], ["uses", ["ann", ["list", ["dep", ["str"], "n", "varrange_n", 0]], ["LSBWLO", 1, 2]]]]},
            {"name": "Seq", "parent": "Stmt", "fields": [["a", ["ref", "Stmt"]], ["b", ["ref", "Stmt"]]]},
        ],
        "start": "Stmt",
    }
)
