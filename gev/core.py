"""Shared plumbing: paths, per-shard recorder, case time limits."""

from __future__ import annotations

import contextlib
import hashlib
import json
import os
import signal
import subprocess
import sys
import time
import traceback
from collections import Counter
from pathlib import Path

VERIF = Path(__file__).resolve().parent.parent
REPO = Path(os.environ.get("GEV_REPO_ROOT", "/repo")).resolve()
DEPS = VERIF / ".deps"
PY = os.environ.get("GEV_PYTHON", "/venv/bin/python")
WHEELS = "/opt/veriftools/wheels"


def ensure_deps() -> None:
    """icontract lives in a git-ignored directory; restores do not contain it."""
    if (DEPS / "icontract").is_dir():
        return
    DEPS.mkdir(exist_ok=True)
    subprocess.run(
        [PY, "-m", "pip", "install", "--quiet", "--no-index", "--find-links", WHEELS, "--target", str(DEPS), "icontract"],
        check=True,
        stdout=subprocess.DEVNULL,
        stderr=subprocess.DEVNULL,
    )


def setup_paths() -> None:
    """The working tree under REPO is what gets monitored (it shadows the editable install)."""
    r = str(REPO)
    if r in sys.path:
        sys.path.remove(r)
    sys.path.insert(0, r)
    v = str(VERIF)
    if v not in sys.path:
        sys.path.insert(1, v)
    d = str(DEPS)
    if d not in sys.path:
        sys.path.append(d)  # last: never shadow the venv's own packages


def child_env(extra: dict | None = None) -> dict:
    env = dict(os.environ)
    env["PYTHONHASHSEED"] = env.get("GEV_HASHSEED", "0")
    env["GEV_REPO_ROOT"] = str(REPO)
    env["PYTHONPATH"] = os.pathsep.join([str(REPO), str(VERIF)])
    env["PYTHONDONTWRITEBYTECODE"] = "1"
    env.setdefault("OMP_NUM_THREADS", "1")
    env.setdefault("OPENBLAS_NUM_THREADS", "1")
    if extra:
        env.update(extra)
    return env


def h(obj) -> str:
    if not isinstance(obj, str):
        obj = json.dumps(obj, sort_keys=True, default=str)
    return hashlib.md5(obj.encode("utf-8", "replace")).hexdigest()[:12]


class CaseTimeout(BaseException):
    pass


_limit_depth = 0
outer_fired = False  # the OUTERMOST watchdog (the per-case one) has fired since the shard last cleared this


def _alarm(signum, frame):
    global outer_fired
    if _limit_depth <= 1:
        outer_fired = True
    raise CaseTimeout()


class time_limit:
    def __init__(self, seconds: float):
        self.seconds = seconds

    def __enter__(self):
        global _limit_depth
        _limit_depth += 1
        self.old = signal.signal(signal.SIGALRM, _alarm)
        # interval 0.2 s: if some handler in the workload swallows the first CaseTimeout, the watchdog fires again
        self.outer_remaining = signal.setitimer(signal.ITIMER_REAL, self.seconds, 0.2)[0]
        self.t0 = time.monotonic()

    def __exit__(self, *a):
        global _limit_depth
        _limit_depth -= 1
        signal.setitimer(signal.ITIMER_REAL, 0)
        signal.signal(signal.SIGALRM, self.old)
        if self.outer_remaining > 0:  # nested use: re-arm the enclosing watchdog with what is left of it
            signal.setitimer(signal.ITIMER_REAL, max(0.01, self.outer_remaining - (time.monotonic() - self.t0)), 0.2)
        return False


def short(o, n=300) -> str:
    try:
        s = repr(o)
    except BaseException as e:  # noqa
        s = f"<unreprable {type(o).__name__}: {type(e).__name__}>"
    return s if len(s) <= n else s[: n - 3] + "..."


class Rec:
    """Per-shard recorder. Monitors record; they never abort the workload."""

    MAX_WITNESSES = 3

    def __init__(self, prop: str):
        self.prop = prop
        self.counters: Counter = Counter()
        self.distinct: set[str] = set()
        self.samples: list = []
        self.violations: dict[str, dict] = {}
        self.inconclusive: list[str] = []
        self.case = None
        self.extra_sets: dict[str, set] = {}

    def count(self, key: str, n: int = 1):
        self.counters[key] += n

    def distinct_add(self, key):
        self.distinct.add(h(key))

    def set_add(self, name: str, key):
        self.extra_sets.setdefault(name, set()).add(key if isinstance(key, str) else json.dumps(key, default=str))

    def sample(self, obj, cap: int = 4):
        if len(self.samples) < cap:
            self.samples.append(obj)

    def violation(self, mechanism: str, witness):
        v = self.violations.setdefault(mechanism, {"count": 0, "witnesses": []})
        v["count"] += 1
        if len(v["witnesses"]) < self.MAX_WITNESSES:
            v["witnesses"].append({"witness": witness, "case": self.case})

    def note_inconclusive(self, reason: str):
        if reason not in self.inconclusive:
            self.inconclusive.append(reason)

    def dump(self) -> dict:
        return {
            "counters": dict(self.counters),
            "distinct": sorted(self.distinct),
            "samples": self.samples,
            "violations": self.violations,
            "inconclusive": self.inconclusive,
            "extra_sets": {k: sorted(v) for k, v in self.extra_sets.items()},
        }


def merge(dumps: list[dict]) -> dict:
    counters: Counter = Counter()
    distinct: set = set()
    samples: list = []
    violations: dict = {}
    inconclusive: list = []
    extra_sets: dict[str, set] = {}
    for d in dumps:
        counters.update(d["counters"])
        distinct.update(d["distinct"])
        for s in d["samples"]:
            if len(samples) < 6:
                samples.append(s)
        for m, v in d["violations"].items():
            t = violations.setdefault(m, {"count": 0, "witnesses": []})
            t["count"] += v["count"]
            for w in v["witnesses"]:
                if len(t["witnesses"]) < Rec.MAX_WITNESSES:
                    t["witnesses"].append(w)
        for r in d["inconclusive"]:
            if r not in inconclusive:
                inconclusive.append(r)
        for k, v in d.get("extra_sets", {}).items():
            extra_sets.setdefault(k, set()).update(v)
    return {
        "counters": dict(counters),
        "distinct": distinct,
        "samples": samples,
        "violations": violations,
        "inconclusive": inconclusive,
        "extra_sets": extra_sets,
    }


def exc_site(e: BaseException) -> str:
    """Innermost frame inside the monitored library: 'module:function'."""
    tb = traceback.extract_tb(e.__traceback__)
    site = None
    for fr in tb:
        fn = fr.filename.replace("\\", "/")
        if "/geneticengine/" in fn or "/geml/" in fn:
            mod = fn.split("/geneticengine/")[-1] if "/geneticengine/" in fn else "geml/" + fn.split("/geml/")[-1]
            site = f"{mod[:-3] if mod.endswith('.py') else mod}:{fr.name}"
    return site or "outside-library"


def is_library_error(e: BaseException) -> bool:
    """The library's own error types (defined in a geneticengine.* module)."""
    mod = type(e).__module__ or ""
    return mod.startswith("geneticengine.") or mod == "geneticengine"


def now() -> float:
    return time.monotonic()


@contextlib.contextmanager
def oracle_room(limit: int = 200000):
    """Stack room for the monitor's own recursive folds over very deep programs. Restores the previous recursion
    limit on exit so that the code under observation never runs under a limit the harness raised."""
    old = sys.getrecursionlimit()
    sys.setrecursionlimit(max(old, limit))
    try:
        yield
    finally:
        sys.setrecursionlimit(old)
