#!/bin/sh
# Offline setup: icontract (+deps) from the local wheelhouse into the git-ignored /verif/.deps.
cd "$(dirname "$0")" || exit 2
exec /venv/bin/python -c "from gev import core; core.ensure_deps(); print('gev deps ready')"
