import time, itertools
from abc import ABC
from dataclasses import dataclass
from typing import Annotated, Union
from geneticengine.grammar.grammar import extract_grammar
from geneticengine.random.sources import RandomSource
from geneticengine.representations.tree.initializations import *
from geneticengine.representations.tree.treebased import *
from geneticengine.grammar.metahandlers.ints import IntRange
from geneticengine.grammar.metahandlers.lists import ListSizeBetween

class Scripted(RandomSource):
    def __init__(self): self.trail=[]; self.pos=0
    def randint(self, a, b):
        if self.pos < len(self.trail):
            v, ta, tb = self.trail[self.pos]
            assert (ta, tb) == (a, b), "nondeterministic replay"
        else:
            v = a; self.trail.append((a, a, b))
        self.pos += 1
        return v
    def random_float(self, a, b): raise RuntimeError("float draw in finite grammar")
    def advance(self):
        while self.trail and self.trail[-1][0] == self.trail[-1][2]: self.trail.pop()
        if not self.trail: return False
        v,a,b = self.trail[-1]; self.trail[-1] = (v+1,a,b); self.pos=0; return True

class Root(ABC): pass
@dataclass
class Leaf(Root): pass
@dataclass
class Lit(Root):
    v: Annotated[int, IntRange(0, 1)]
@dataclass
class Plus(Root):
    a: Root
    b: Root
@dataclass
class LL(Root):
    items: Annotated[list[Root], ListSizeBetween(1,2)]

def explore(classes, start, D, d):
    g = extract_grammar(classes, start)
    s = Scripted()
    dec = D(s, g, d)
    out = {}; runs=0; t=time.time()
    while True:
        s.pos = 0
        x = random_node(s, g, start, dec)
        out[repr(x)] = out.get(repr(x),0)+1; runs+=1
        if not s.advance(): break
    return len(out), runs, time.time()-t

print("grow d=3", explore([Leaf, Lit, Plus], Root, MaxDepthDecider, 3))
print("grow d=4", explore([Leaf, Lit, Plus], Root, MaxDepthDecider, 4))
print("full d=4", explore([Leaf, Lit, Plus], Root, FullDecider, 4))
print("pig d=3", explore([Leaf, Lit, Plus], Root, PositionIndependentGrowDecider, 3))
print("grow+list d=3", explore([Leaf, Lit, LL], Root, MaxDepthDecider, 3))
