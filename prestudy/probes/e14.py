import sys, collections, itertools
from abc import ABC
from dataclasses import dataclass
from typing import Annotated
from geneticengine.grammar.grammar import extract_grammar
from geneticengine.random.sources import NativeRandomSource, RandomSource
from geneticengine.representations.tree.initializations import *
from geneticengine.representations.tree.treebased import *
from geneticengine.representations.tree.operators import *
from geneticengine.grammar.metahandlers.ints import IntRange, IntervalRange
from geneticengine.problems import SingleObjectiveProblem, MultiObjectiveProblem
from geneticengine.solutions.individual import Individual
from geneticengine.evaluation.sequential import SequentialEvaluator
from geneticengine.evaluation.parallel import ParallelEvaluator
from geneticengine.evaluation.tracker import *
from geneticengine.evaluation.budget import *
from geneticengine.evaluation.recorder import SearchRecorder
from geneticengine.algorithms.gp.gp import GeneticProgramming
from geneticengine.algorithms.gp.operators.elitism import ElitismStep
from geneticengine.algorithms.gp.operators.selection import TournamentSelection
from geneticengine.representations.grammatical_evolution.structured_ge import StructuredListWrapper

# M31
class Ext(RandomSource):
    def __init__(self, pick): self.pick=pick
    def randint(self,a,b): return a if self.pick=="min" else b
    def random_float(self,a,b): return a
ir = IntervalRange(2,4,10)
for pick in ("min","max"):
    v = ir.generate(Ext(pick), None, tuple[int,int], None, {})
    print("M31", pick, v, "validate:", ir.validate(v))

class Root(ABC): pass
@dataclass
class Lit(Root):
    v: Annotated[int, IntRange(0,20)]
g = extract_grammar([Lit], Root)
r = NativeRandomSource(0)
rep = TreeBasedRepresentation(g, MaxDepthDecider(r, g, 3))

# M24
p = SingleObjectiveProblem(lambda x: x.v)
for k in (0,1,3,10,12):
    progs = [rep.create_genotype(r) for _ in range(k)]
    try:
        n = len(list(InjectInitialPopulationWrapper(progs, GrowInitializer()).initialize(p, rep, r, 10)))
    except Exception as e: n = type(e).__name__
    print("M24 injected", k, "target 10 ->", n)

# M20
calls=[]
import os, tempfile
logf = tempfile.mktemp()
def ff(x):
    with open(logf,"a") as f: f.write("x\n")
    return x.v
pp = SingleObjectiveProblem(ff)
inds = [Individual(rep.create_genotype(r), rep) for _ in range(3)]
ev = ParallelEvaluator()
ev.evaluate(pp, inds); ev.evaluate(pp, inds)
print("M20 parallel: count", ev.number_of_evaluations(), "invocations", len(open(logf).read().split()))

# M21
class WD(Exception): pass
class MB(SearchBudget):
    def __init__(s, inner): s.inner=inner; s.n=0
    def is_done(s, t):
        s.n+=1
        if s.n>200: raise WD()
        return s.inner.is_done(t)
try:
    GeneticProgramming(p, MB(EvaluationBudget(50)), rep, r, population_size=10, step=ElitismStep()).search(); print("M21 terminated")
except WD: print("M21 watchdog: 200 checks, no termination")

# C16 list
for minimize in (False, True):
    pr = SingleObjectiveProblem(lambda x: x.v % 5, minimize)
    ok=True
    for trial in range(200):
        pop=[Individual(rep.create_genotype(r), rep) for _ in range(7)]
        k = r.randint(1,7)
        out=list(ElitismStep().apply(pr, SequentialEvaluator(), rep, r, pop, k, 0))
        exc=[i for i in pop if not any(i is o for o in out)]
        if len(out)!=k or (exc and min(o.get_fitness(pr).maximizing_aggregate for o in out) < max(e.get_fitness(pr).maximizing_aggregate for e in exc)): ok=False
    print("C16 list minimize", minimize, ok)

# C17 tournament with recording
class Rec(NativeRandomSource):
    def __init__(s, seed): super().__init__(seed); s.log=[]
    def choice(s, c):
        v=super().choice(c); s.log.append(v); return v
ok=True
for trial in range(300):
    pr = SingleObjectiveProblem(lambda x: x.v % 5, trial%2==0)
    pop=[Individual(rep.create_genotype(r), rep) for _ in range(6)]
    ts = r.randint(1,8); rec=Rec(trial)
    out=list(TournamentSelection(ts, trial%3==0).apply(pr, SequentialEvaluator(), rep, rec, pop, r.randint(1,6), 0))
    for j,w in enumerate(out):
        parts = rec.log[j*ts:(j+1)*ts]
        if not any(w is q for q in pop): ok=False
        if any(q.get_fitness(pr).maximizing_aggregate > w.get_fitness(pr).maximizing_aggregate for q in parts): ok=False
print("C17 tournament", ok)

# C12 multi
okm=True
for seq in itertools.product([0,1,2], repeat=5):
    it=iter(seq)
    mp = MultiObjectiveProblem([False, True], lambda x: [next(it), 0] if False else [x.v, 0])
    class R2(SearchRecorder):
        def __init__(s): s.ev=[]
        def register(s, tracker, individual, problem, is_best): s.ev.append((individual.get_fitness(problem).maximizing_aggregate, is_best))
    rc=R2(); tr=MultiObjectiveProgressTracker(mp, SequentialEvaluator(), [rc])
    best=None
    for v in seq:
        i=Individual(Lit(v), rep); tr.evaluate([i])
        best = v if best is None else max(best,v)
        if any(b.get_fitness(mp).maximizing_aggregate != best for b in tr.get_best_individuals()): okm=False
print("C12 multi front attains best:", okm)

# SGE wrapper
w = StructuredListWrapper({"$infrastructure":[0,5,2**63-1,-7,123456789]})
bad=0
for (lo,hi) in [(0,0),(0,1),(-3,3),(5,5),(-10**9,10**9),(1,sys.maxsize)]:
    for i in range(10):
        v=w.randint(lo,hi); bad += not (lo<=v<=hi)
        f=w.random_float(float(lo), float(hi)); bad += not (float(lo)<=f<=float(hi))
print("SGE wrapper bad", bad)
