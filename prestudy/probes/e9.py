import sys, collections, itertools, os, tempfile
from abc import ABC
from dataclasses import dataclass
from typing import Annotated, Union
from geneticengine.grammar.grammar import extract_grammar
from geneticengine.grammar.decorators import weight, abstract, get_gengy
from geneticengine.random.sources import NativeRandomSource, RandomSource
from geneticengine.representations.tree.initializations import *
from geneticengine.representations.tree.treebased import *
from geneticengine.representations.tree.operators import *
from geneticengine.grammar.metahandlers.ints import IntRange
from geneticengine.problems import SingleObjectiveProblem

class Root(ABC): pass
@dataclass
class Leaf(Root): pass
@dataclass
class Lit(Root):
    v: Annotated[int, IntRange(0,1)]
@dataclass
class Plus(Root):
    a: Root
    b: Root
@dataclass
class Holder:
    r: Root
g = extract_grammar([Leaf, Lit, Plus], Holder)
r = NativeRandomSource(0)
for D in (PositionIndependentGrowDecider, FullDecider, MaxDepthDecider):
    try:
        d = D(r, g, 4)
        x = random_node(r, g, Holder, d)
        print(D.__name__, "ok", x)
    except Exception as e:
        print(D.__name__, type(e).__name__, e)

def depth(t):
    if isinstance(t, list): return max([depth(e) for e in t], default=0)
    if hasattr(t, '__dataclass_fields__'): return 1 + max([depth(getattr(t,f)) for f in t.__dataclass_fields__], default=0)
    return 0
g2 = extract_grammar([Leaf, Lit, Plus], Root)
for D in (PositionIndependentGrowDecider, FullDecider, MaxDepthDecider):
    for md in (1,2,3,4):
        c = collections.Counter()
        for i in range(300):
            d = D(r, g2, md)
            c[depth(random_node(r, g2, Root, d))]+=1
        print(D.__name__, md, dict(c))
p = SingleObjectiveProblem(lambda x: 1)
for md in (1,2,3):
    rep = TreeBasedRepresentation(g2, MaxDepthDecider(r, g2, 5))
    c = collections.Counter(depth(i.genotype) for i in FullInitializer(md).initialize(p, rep, r, 200))
    print("FullInitializer", md, dict(c))

# C19
@abstract
class Opt: pass
@weight(1)
class A(Opt): pass
@weight(3)
class B(Opt): pass
class C(Opt): pass
@weight(0)
class Z(Opt): pass
for k in range(3):
    gw = extract_grammar([A,B,C,Z], Opt)
    print("C19 extraction", k, {c.__name__: round(w,4) for c,w in gw.get_weights().items()})
d = ProgressivelyTerminalDecider(r, gw)
gw2 = extract_grammar([Z, A, B, C], Opt)
print(gw2.alternatives)
c = collections.Counter(type(random_node(r, gw2, Opt, d)).__name__ for _ in range(300000))
print("C19 progressive picks", dict(c))
