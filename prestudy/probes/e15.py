import csv, os, random
path = "/root/scratch/t15.csv"
for flush in (True, False):
    for rowlen in (40, 300, 3000, 9000):
        f = open(path, "w", newline=""); w = csv.writer(f)
        w.writerow(["a", "b"]); f.flush()
        torn = lag_max = 0; n = 400
        rnd = random.Random(1)
        for i in range(n):
            w.writerow([i, "x" * rnd.randint(1, rowlen)])
            if flush: f.flush()
            data = open(path, "rb").read()
            complete = data.endswith(b"\r\n")
            rows = data.count(b"\r\n") - 1
            if not complete: torn += 1
            lag_max = max(lag_max, (i + 1) - rows)
        f.close()
        print(f"flush={flush} rowlen<={rowlen}: observations with torn last row {torn}/{n}, max lag {lag_max} rows")
os.remove(path)
