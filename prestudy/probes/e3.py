from abc import ABC
from dataclasses import dataclass
from typing import Annotated, Union
from geneticengine.grammar.grammar import extract_grammar
from geneticengine.random.sources import NativeRandomSource
from geneticengine.representations.tree.initializations import *
from geneticengine.representations.tree.treebased import *
from geneticengine.grammar.metahandlers.ints import IntRange
from geneticengine.grammar.metahandlers.lists import ListSizeBetween

class Root(ABC): pass
@dataclass
class Leaf(Root): pass
@dataclass
class Lit(Root):
    v: Annotated[int, IntRange(0, 9)]
@dataclass
class Plus(Root):
    a: Root
    b: Root
@dataclass
class LL(Root):
    items: Annotated[list[Root], ListSizeBetween(1,3)]
@dataclass
class UL(Root):
    items: list[Root]

for exp in (False, True):
    g = extract_grammar([Leaf, Lit, Plus, LL, UL], Root, expansion_depthing=exp)
    r = NativeRandomSource(3)
    d = MaxDepthDecider(r, g, 6 if not exp else 12)
    print("exp", exp, {getattr(k,'__name__',k):v for k,v in g.distanceToTerminal.items()})
    def show(t, ind=0):
        meta = {a: getattr(t,a,None) for a in ('gengy_nodes','gengy_distance_to_term','gengy_weighted_nodes','gengy_labeled')}
        ttw = getattr(t,'gengy_types_this_way',None)
        print(" "*ind, type(t).__name__, meta, {k.__name__:len(v) for k,v in ttw.items()} if ttw is not None else None, getattr(t,'gengy_synthesis_context',None))
        if isinstance(t, list):
            for e in t: show(e, ind+2)
        elif hasattr(t,'__dataclass_fields__'):
            for f in t.__dataclass_fields__: show(getattr(t,f), ind+2)
    n=0
    while n<3:
        try:
            x = random_node(r, g, Root, d)
        except AssertionError: continue
        if isinstance(x,(LL,UL,Plus)):
            show(x); n+=1; print()
