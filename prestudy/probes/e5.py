from abc import ABC
from dataclasses import dataclass
from typing import Annotated, Union
import traceback, collections
from geneticengine.grammar.grammar import extract_grammar
from geneticengine.random.sources import NativeRandomSource
from geneticengine.representations.tree.initializations import *
from geneticengine.representations.tree.treebased import *
from geneticengine.representations.grammatical_evolution.ge import GrammaticalEvolutionRepresentation
from geneticengine.representations.grammatical_evolution.structured_ge import StructuredGrammaticalEvolutionRepresentation
from geneticengine.representations.grammatical_evolution.dynamic_structured_ge import DynamicStructuredGrammaticalEvolutionRepresentation
from geneticengine.representations.stackgggp import StackBasedGGGPRepresentation
from geneticengine.grammar.metahandlers.ints import IntRange
from geneticengine.grammar.metahandlers.lists import ListSizeBetween

class Root(ABC): pass
@dataclass
class Leaf(Root): pass
@dataclass
class B(Root):
    b: bool
@dataclass
class LS(Root):
    xs: list[Leaf]
@dataclass
class U(Root):
    u: Union[Leaf, B]
@dataclass
class Tu(Root):
    t: tuple[int, bool]
@dataclass
class AL(Root):
    xs: Annotated[list[Leaf], ListSizeBetween(1,2)]

def trial(name, classes, start, mk, n=50):
    g = extract_grammar(classes, start)
    r = NativeRandomSource(7)
    errs = collections.Counter(); exs=[]
    try:
        rep = mk(g, r)
    except Exception as e:
        print(name, "CONSTRUCT ERR", type(e).__name__, str(e)[:80]); return
    for i in range(n):
        try:
            gt = rep.create_genotype(r)
            p = rep.genotype_to_phenotype(gt)
            if len(exs)<3: exs.append(repr(p))
        except Exception as e:
            errs[type(e).__name__ + ":" + str(e)[:60]] += 1
    print(name, dict(errs), exs)

mks = {"dsge": lambda g, r: DynamicStructuredGrammaticalEvolutionRepresentation(g, 4),
       "stack": lambda g, r: StackBasedGGGPRepresentation(g, 512),
       "ge": lambda g, r: GrammaticalEvolutionRepresentation(g, MaxDepthDecider(r, g, 4), 64)}
for rn, mk in mks.items():
    trial(rn+" bool", [Leaf, B], Root, mk)
    trial(rn+" list", [Leaf, LS], Root, mk)
    trial(rn+" union", [Leaf, B, U], Root, mk)
    trial(rn+" tuple", [Leaf, Tu], Root, mk)
    trial(rn+" annlist", [Leaf, AL], Root, mk)
