import subprocess, re, os, time, csv, io
t=time.time()
subprocess.run(["strace","-f","-y","-e","trace=write","-s","100000","-o","/var/tmp/st17.log","/venv/bin/python",os.path.join(os.path.dirname(os.path.abspath(__file__)),"e17_child.py"),"/var/tmp/full17.csv"],check=True)
print("strace run %.1fs"%(time.time()-t))
writes=[]
for line in open("/var/tmp/st17.log", errors="replace"):
    m=re.match(r'\d+\s+write\(\d+</var/tmp/full17.csv>, "(.*)", (\d+)\)\s+=\s+(\d+)', line)
    if m: writes.append((m.group(1), int(m.group(2)), int(m.group(3))))
print("write syscalls to csv:", len(writes), "all end with row terminator:", all(w[0].endswith("\\r\\n") for w in writes), "all complete (ret==len):", all(w[1]==w[2] for w in writes), "rows per write:", sorted({w[0].count("\\r\\n") for w in writes}))
full=open("/var/tmp/full17.csv", newline="").read()
rows=list(csv.reader(io.StringIO(full))); print("rows", len(rows)-1, "header", rows[0])
def strip(rs): return [r[1:] for r in rs]
ok=0; t=time.time(); n=0
for k in (1,2,3,4,5,50,51,52,333,700):
    p="/var/tmp/k17.csv"
    rc=subprocess.run(["/venv/bin/python",os.path.join(os.path.dirname(os.path.abspath(__file__)),"e17_child.py"),p],env=dict(os.environ,KILL_AT=str(k))).returncode
    data=open(p,newline="").read(); kr=list(csv.reader(io.StringIO(data)))
    good = data.endswith("\r\n") and all(len(r)==len(rows[0]) for r in kr) and strip(kr)==strip(rows[:len(kr)])
    n+=1; ok+=good
    print("kill_at",k,"rc",rc,"rows on disk",len(kr)-1,"valid prefix",good)
print("kills %d ok %d in %.1fs"%(n,ok,time.time()-t))
for f in ("st17.log","full17.csv","k17.csv"): os.remove("/var/tmp/"+f)
