from abc import ABC
from dataclasses import dataclass
from typing import Annotated, Union
import sys, traceback
from geneticengine.grammar.grammar import extract_grammar
from geneticengine.random.sources import NativeRandomSource
from geneticengine.representations.tree.initializations import *
from geneticengine.representations.tree.treebased import *
from geneticengine.grammar.metahandlers.ints import IntRange
from geneticengine.grammar.metahandlers.lists import ListSizeBetween

class Root(ABC): pass
@dataclass
class Leaf(Root): pass
@dataclass
class Lit(Root):
    v: int
@dataclass
class T(Root):
    t: tuple[int, bool]
    b: bool
    s: str
    f: float
@dataclass
class U(Root):
    u: Union[Lit, Leaf]
@dataclass
class L(Root):
    items: list[Root]
@dataclass
class Plus(Root):
    a: Root
    b: Root

g = extract_grammar([Leaf, Lit, T, U, L, Plus], Root)
print(g)
print("dist", {k.__name__ if hasattr(k,'__name__') else k: v for k,v in g.distanceToTerminal.items()})
print("rec", g.recursive_prods)
r = NativeRandomSource(1)
d = MaxDepthDecider(r, g, 4)
for i in range(5):
    x = random_node(r, g, Root, d)
    print(type(x).__name__, x)
    if isinstance(x, T):
        print("  tuple field:", type(x.t), x.t)
print("---- T direct")
for i in range(3):
    try:
        x = random_node(r, g, T, d)
        print(x, type(x.t), type(x.s), repr(x.s), type(x.b))
        print("  consumed tuple:", tuple(x.t))
    except Exception as e:
        traceback.print_exc()
print("---- L direct at several depths")
for md in [2,3,4]:
    dd = MaxDepthDecider(NativeRandomSource(md), g, md)
    ok=0; errs={}
    for i in range(200):
        try:
            x = random_node(dd.random, g, L, dd); ok+=1
        except Exception as e:
            errs[type(e).__name__+":"+str(e)[:50]] = errs.get(type(e).__name__+":"+str(e)[:50],0)+1
    print(md, ok, errs)
