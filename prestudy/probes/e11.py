import importlib, inspect, traceback
from abc import ABC
from dataclasses import dataclass
from typing import Annotated, Union
from geneticengine.grammar.grammar import extract_grammar
from geneticengine.grammar.metahandlers.lists import ListSizeBetween
from geneticengine.grammar.metahandlers.ints import IntRange
from geneticengine.grammar.utils import is_abstract

class Root(ABC): pass
@dataclass
class Leaf(Root): pass
@dataclass
class AL(Root):
    xs: Annotated[list[Leaf], ListSizeBetween(1,2)]
@dataclass
class U(Root):
    u: Union[Leaf, AL]
@dataclass
class I(Root):
    v: Annotated[int, IntRange(0,3)]
for cls in ([Leaf, AL], [Leaf, U], [Leaf, I]):
    g = extract_grammar(cls, Root)
    try:
        g2 = g.usable_grammar(); print([c.__name__ for c in cls], "usable ok", [getattr(c,'__name__',c) for c in g2.considered_subtypes])
    except Exception as e:
        print([c.__name__ for c in cls], "usable ERR", type(e).__name__, e)

import geml.grammars
for mn in ["sgp","basic_math","literals","regex","letter","ruleset_classification","symbolic_regression","coding.classes","coding.conditions","coding.control_flow","coding.lists","coding.logical_ops","coding.numbers"]:
    try:
        m = importlib.import_module("geml.grammars."+mn)
    except Exception as e:
        print(mn, "IMPORT ERR", type(e).__name__, e); continue
    classes = [c for n,c in vars(m).items() if inspect.isclass(c) and c.__module__==m.__name__]
    print(mn, len(classes), [c.__name__ for c in classes][:12])
