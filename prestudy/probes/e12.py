import sys, collections, itertools, copy
from abc import ABC
from dataclasses import dataclass
from typing import Annotated
from geneticengine.grammar.grammar import extract_grammar
from geneticengine.random.sources import NativeRandomSource
from geneticengine.representations.tree.initializations import *
from geneticengine.representations.tree.treebased import *
from geneticengine.representations.grammatical_evolution.ge import GrammaticalEvolutionRepresentation
from geneticengine.representations.grammatical_evolution.structured_ge import StructuredGrammaticalEvolutionRepresentation
from geneticengine.representations.grammatical_evolution.dynamic_structured_ge import DynamicStructuredGrammaticalEvolutionRepresentation
from geneticengine.representations.stackgggp import StackBasedGGGPRepresentation
from geneticengine.grammar.metahandlers.ints import IntRange
from geneticengine.grammar.metahandlers.lists import ListSizeBetween
from geneticengine.problems import SingleObjectiveProblem
from geneticengine.solutions.individual import Individual
from geneticengine.evaluation.sequential import SequentialEvaluator
from geneticengine.algorithms.gp.operators.combinators import *
from geneticengine.algorithms.gp.operators.elitism import ElitismStep
from geneticengine.algorithms.gp.operators.novelty import NoveltyStep
from geneticengine.algorithms.gp.operators.selection import *
from geneticengine.algorithms.gp.operators.crossover import GenericCrossoverStep
from geneticengine.algorithms.gp.operators.mutation import GenericMutationStep
from geneticengine.algorithms.gp.gp import default_generic_programming_step

class Root(ABC): pass
@dataclass
class Lit(Root):
    v: Annotated[int, IntRange(0, 9)]
@dataclass
class Plus(Root):
    a: Root
    b: Root
@dataclass
class LL(Root):
    items: Annotated[list[Root], ListSizeBetween(1,3)]
g = extract_grammar([Lit, Plus, LL], Root)

def snap(x, seen=None):
    # structural snapshot incl metadata
    if isinstance(x, (int, float, str, bool, type(None))): return x
    if isinstance(x, dict): return {str(k): snap(v) for k, v in x.items()}
    if isinstance(x, (list, tuple)):
        meta = tuple((a, repr(getattr(x, a, None))) for a in ("gengy_nodes","gengy_distance_to_term","gengy_weighted_nodes","gengy_synthesis_context"))
        return ("L", meta, [snap(e) for e in x])
    if hasattr(x, "__dataclass_fields__"):
        meta = tuple((a, repr(getattr(x, a, None))) for a in ("gengy_nodes","gengy_distance_to_term","gengy_weighted_nodes","gengy_labeled"))
        ctx = getattr(x, "gengy_synthesis_context", None)
        ttw = getattr(x, "gengy_types_this_way", None)
        return (type(x).__name__, meta, (ctx.depth, ctx.nodes, ctx.expansions) if ctx else None, sorted((k.__name__, len(v)) for k,v in ttw.items()) if ttw else None, [snap(getattr(x,f)) for f in x.__dataclass_fields__])
    return repr(x)
def snap_ind(i, prob):
    return (snap(i.genotype if not hasattr(i.genotype,'dna') else i.genotype.dna), i.fitness_store.get(prob))

prob = SingleObjectiveProblem(lambda p: len(repr(p)) % 13)
reps = {"tree": lambda r: TreeBasedRepresentation(g, MaxDepthDecider(r, g, 5)),
 "ge": lambda r: GrammaticalEvolutionRepresentation(g, MaxDepthDecider(r, g, 5), 32),
 "sge": lambda r: StructuredGrammaticalEvolutionRepresentation(g, MaxDepthDecider(r, g, 5), 16),
 "dsge": lambda r: DynamicStructuredGrammaticalEvolutionRepresentation(g, 5),
 "stack": lambda r: StackBasedGGGPRepresentation(g, 256)}
steps = {"mut": GenericMutationStep(1.0), "cx": GenericCrossoverStep(1.0), "tour": TournamentSelection(3), "tourR": TournamentSelection(3, True), "elit": ElitismStep(), "nov": NoveltyStep(), "default": default_generic_programming_step(),
         "seq": SequenceStep(TournamentSelection(2), GenericCrossoverStep(0.7), GenericMutationStep(0.7))}
for rn, mk in reps.items():
    r = NativeRandomSource(5)
    rep = mk(r)
    res = {}
    for sn, step in steps.items():
        pop = [Individual(rep.create_genotype(r), rep) for _ in range(12)]
        ev = SequentialEvaluator()
        try:
            ev.evaluate(prob, pop)   # pre-map/evaluate so dsge extension is done
        except Exception as e:
            res[sn] = "EVALERR "+type(e).__name__; continue
        before = [snap_ind(i, prob) for i in pop]
        cur = pop
        try:
            for gen in range(4):
                out = list(step.apply(prob, ev, rep, r, cur, 12, gen))
                ev.evaluate(prob, out)
                cur = out if len(out) >= 12 else pop
        except Exception as e:
            res[sn] = "ERR "+type(e).__name__+str(e)[:40]; continue
        after = [snap_ind(i, prob) for i in pop]
        res[sn] = "same" if before == after else "CHANGED"
    print(rn, res)
