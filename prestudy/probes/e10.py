import sys, collections, itertools
from abc import ABC
from dataclasses import dataclass
from typing import Annotated
from geneticengine.grammar.grammar import extract_grammar
from geneticengine.random.sources import NativeRandomSource
from geneticengine.representations.tree.initializations import *
from geneticengine.representations.tree.treebased import *
from geneticengine.representations.tree.operators import *
from geneticengine.grammar.metahandlers.ints import IntRange
from geneticengine.problems import SingleObjectiveProblem, MultiObjectiveProblem
from geneticengine.algorithms.gp.gp import GeneticProgramming
from geneticengine.algorithms.random_search import RandomSearch
from geneticengine.algorithms.hill_climbing import HC
from geneticengine.algorithms.one_plus_one import OnePlusOne
from geneticengine.evaluation.budget import *
from geneticengine.evaluation.recorder import SearchRecorder
from geneticengine.evaluation.tracker import *
from geneticengine.evaluation.sequential import SequentialEvaluator

class Root(ABC): pass
@dataclass
class Lit(Root):
    v: Annotated[int, IntRange(0,20)]
@dataclass
class Plus(Root):
    a: Root
    b: Root
g = extract_grammar([Lit, Plus], Root)
def val(p): return p.v if isinstance(p, Lit) else val(p.a)+val(p.b)

class Rec(SearchRecorder):
    def __init__(self): self.ev=[]
    def register(self, tracker, individual, problem, is_best):
        self.ev.append((individual.get_fitness(problem).maximizing_aggregate, is_best, individual.metadata.get('generation'), tracker.get_number_evaluations()))

for minimize in (False, True):
  for algname in ("gp","rs","hc","opo"):
    for n in (1, 7, 23, 50):
        r = NativeRandomSource(n)
        calls=[]
        def ff(p): calls.append(1); return val(p) % 11
        prob = SingleObjectiveProblem(ff, minimize)
        rec = Rec()
        tr = SingleObjectiveProgressTracker(prob, SequentialEvaluator(), [rec])
        rep = TreeBasedRepresentation(g, MaxDepthDecider(r, g, 4))
        if algname=="gp": alg = GeneticProgramming(prob, EvaluationBudget(n), rep, r, tr, population_size=6); slack=6
        elif algname=="rs": alg = RandomSearch(prob, EvaluationBudget(n), rep, r, tr); slack=1
        elif algname=="hc": alg = HC(prob, EvaluationBudget(n), rep, r, tr, number_of_mutations=4); slack=4
        else: alg = OnePlusOne(prob, EvaluationBudget(n), rep, r, tr); slack=1
        best = alg.search()
        total = tr.get_number_evaluations()
        okb = n <= total < n+slack
        # best check
        best_seen = max(e[0] for e in rec.ev)
        okbest = best.get_fitness(prob).maximizing_aggregate == best_seen
        # is_best flags
        cur=None; okflags=True
        for (f,isb,_,_) in rec.ev:
            exp = cur is None or f>cur
            if exp: cur=f
            if exp!=isb: okflags=False
        print(algname, "min" if minimize else "max", "n",n,"total",total,"calls",len(calls), "budget-ok",okb,"best-ok",okbest,"flags-ok",okflags, end=" | ")
    print()
