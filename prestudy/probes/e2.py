from abc import ABC
from dataclasses import dataclass
from typing import Annotated, Union
import sys, traceback
from geneticengine.grammar.grammar import extract_grammar
from geneticengine.random.sources import NativeRandomSource
from geneticengine.representations.tree.initializations import *
from geneticengine.representations.tree.treebased import *
from geneticengine.grammar.metahandlers.ints import IntRange
from geneticengine.grammar.metahandlers.lists import ListSizeBetween

class Root(ABC): pass
@dataclass
class Leaf(Root): pass
@dataclass
class Lit(Root):
    v: Annotated[int, IntRange(0, 9)]
@dataclass
class Plus(Root):
    a: Root
    b: Root
@dataclass
class LL(Root):
    items: Annotated[list[Root], ListSizeBetween(1,3)]

g = extract_grammar([Leaf, Lit, Plus, LL], Root)
r = NativeRandomSource(1)
d = MaxDepthDecider(r, g, 5)
rep = TreeBasedRepresentation(g, d)

def ids(t, acc=None):
    acc = acc if acc is not None else {}
    acc[id(t)] = t
    if isinstance(t, list):
        for e in t: ids(e, acc)
    elif hasattr(t, '__dataclass_fields__'):
        for f in t.__dataclass_fields__: ids(getattr(t, f), acc)
    return acc

shared_counts = []
for i in range(200):
    p = rep.create_genotype(r)
    m = rep.mutate(r, p)
    pi, mi = ids(p), ids(m)
    shared = [k for k in mi if k in pi and not isinstance(mi[k], (int,str,float,bool))]
    shared_counts.append(len(shared))
print("mutation: #offspring sharing any non-primitive node with parent:", sum(1 for s in shared_counts if s), "of", len(shared_counts))

sc = []
for i in range(200):
    p1 = rep.create_genotype(r); p2 = rep.create_genotype(r)
    c1, c2 = rep.crossover(r, p1, p2)
    a = ids(p1); b = ids(p2); c = ids(c1)
    fromp1 = [k for k in c if k in a and not isinstance(c[k], (int,str,float,bool))]
    fromp2 = [k for k in c if k in b and not isinstance(c[k], (int,str,float,bool))]
    fresh = [k for k in c if k not in a and k not in b and not isinstance(c[k], (int,str,float,bool))]
    sc.append((len(fromp1), len(fromp2), len(fresh)))
import collections
print("crossover (from p1, from p2, fresh) summary: all-fresh:", sum(1 for x in sc if x[0]==0 and x[1]==0), "of", len(sc))
print(collections.Counter((x[0]>0, x[1]>0, x[2]>0) for x in sc))

# concrete start symbol
g2 = extract_grammar([Leaf, Lit, Plus, LL], Plus)
d2 = MaxDepthDecider(r, g2, 5)
rep2 = TreeBasedRepresentation(g2, d2)
sc=[]
for i in range(200):
    p1 = rep2.create_genotype(r); p2 = rep2.create_genotype(r)
    c1, c2 = rep2.crossover(r, p1, p2)
    a = ids(p1); b = ids(p2); c = ids(c1)
    sc.append((id(c1) in b, id(c1) in a, id(c1)==id(p2)))
print("concrete start: child1 is a node of p2 / of p1 / is p2 itself:", collections.Counter(sc))
