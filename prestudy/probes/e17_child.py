import os, sys
from abc import ABC
from dataclasses import dataclass
from typing import Annotated
from geneticengine.grammar.grammar import extract_grammar
from geneticengine.grammar.metahandlers.ints import IntRange
from geneticengine.random.sources import NativeRandomSource
from geneticengine.representations.tree.initializations import MaxDepthDecider
from geneticengine.representations.tree.treebased import TreeBasedRepresentation
from geneticengine.problems import MultiObjectiveProblem
from geneticengine.evaluation.recorder import CSVSearchRecorder
from geneticengine.evaluation.tracker import MultiObjectiveProgressTracker
from geneticengine.evaluation.sequential import SequentialEvaluator
from geneticengine.evaluation.budget import EvaluationBudget
from geneticengine.algorithms.gp.gp import GeneticProgramming
class Root(ABC): pass
@dataclass
class Lit(Root):
    v: Annotated[int, IntRange(0, 99)]
@dataclass
class Plus(Root):
    a: Root
    b: Root
def val(p): return p.v if isinstance(p, Lit) else val(p.a) + val(p.b)
g = extract_grammar([Lit, Plus], Root)
path = sys.argv[1]
kill_at = int(os.environ.get("KILL_AT", "0"))
prob = MultiObjectiveProblem([False, True], lambda p: [val(p) % 7, val(p) % 5])
r = NativeRandomSource(5)
rep = TreeBasedRepresentation(g, MaxDepthDecider(r, g, 4))
# evaluate one to initialise the objectives count
from geneticengine.solutions.individual import Individual
Individual(rep.create_genotype(NativeRandomSource(1)), rep).ensure_fitness(prob)
rec = CSVSearchRecorder(path, prob, only_record_best_individuals=False)
if kill_at:
    TOOL = 3; sys.monitoring.use_tool_id(TOOL, "kill")
    code = CSVSearchRecorder.register.__code__; n = [0]
    def on_line(c, line):
        if c is code:
            n[0] += 1
            if n[0] == kill_at: os._exit(137)
        else: return sys.monitoring.DISABLE
    sys.monitoring.register_callback(TOOL, sys.monitoring.events.LINE, on_line)
    sys.monitoring.set_events(TOOL, sys.monitoring.events.LINE)
tr = MultiObjectiveProgressTracker(prob, SequentialEvaluator(), [rec])
GeneticProgramming(prob, EvaluationBudget(120), rep, r, tr, population_size=10).search()
