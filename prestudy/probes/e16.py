# feasibility: dynamic grammar module + ParallelEvaluator + logging/delaying fitness + guarded lists + sys.monitoring counters
import sys, types, os, time, tempfile, dataclasses, hashlib, collections
from abc import ABC
from typing import Annotated
from geneticengine.grammar.grammar import extract_grammar
from geneticengine.grammar.metahandlers.ints import IntRange
from geneticengine.random.sources import NativeRandomSource
from geneticengine.representations.tree.initializations import MaxDepthDecider
import geneticengine.representations.tree.initializations as init
from geneticengine.representations.tree.treebased import TreeBasedRepresentation
from geneticengine.problems import SingleObjectiveProblem
from geneticengine.solutions.individual import Individual
from geneticengine.evaluation.parallel import ParallelEvaluator
from geneticengine.evaluation.sequential import SequentialEvaluator

mod = types.ModuleType("gev_dyn_0"); sys.modules["gev_dyn_0"] = mod
def mk(name, bases, fields):
    cls = dataclasses.make_dataclass(name, fields, bases=bases, namespace={"__module__": "gev_dyn_0"})
    setattr(mod, name, cls); return cls
Root = type("Root", (ABC,), {"__module__": "gev_dyn_0"}); mod.Root = Root
Lit = mk("Lit", (Root,), [("v", Annotated[int, IntRange(0, 9)])])
Plus = mk("Plus", (Root,), [("a", Root), ("b", Root)])
g = extract_grammar([Lit, Plus], Root)

# guarded list tripwire
class Guarded(list):
    log = []
    def remove(self, x): Guarded.log.append(("remove", getattr(x, "__name__", x), sys._getframe(1).f_code.co_name)); return super().remove(x)
    def append(self, x): Guarded.log.append(("append", x)); return super().append(x)
for k in list(g.alternatives): g.alternatives[k] = Guarded(g.alternatives[k])

# sys.monitoring anchor counters
TOOL = 3
sys.monitoring.use_tool_id(TOOL, "gev")
counts = collections.Counter()
anchors = {init.create_node.__code__: "create_node", init.MaxDepthDecider.choose_production_alternatives.__code__: "MaxDepth.choose"}
def on_start(code, off):
    if code in anchors: counts[anchors[code]] += 1
    else: return sys.monitoring.DISABLE
sys.monitoring.register_callback(TOOL, sys.monitoring.events.PY_START, on_start)
sys.monitoring.set_events(TOOL, sys.monitoring.events.PY_START)

r = NativeRandomSource(3)
rep = TreeBasedRepresentation(g, MaxDepthDecider(r, g, 4))
logf = tempfile.mktemp()
def ff(p):
    h = int(hashlib.sha1(repr(p).encode()).hexdigest(), 16)
    time.sleep((h % 20) / 1000)
    fd = os.open(logf, os.O_WRONLY | os.O_APPEND | os.O_CREAT); os.write(fd, f"{os.getpid()} {time.monotonic_ns()} {h % 10**6} {h % 97}\n".encode()); os.close(fd)
    return h % 97
prob = SingleObjectiveProblem(ff)
pop = [Individual(rep.create_genotype(r), rep) for _ in range(6)]
import copy
pop2 = copy.deepcopy(pop)
t = time.time(); pe = ParallelEvaluator(); pe.evaluate(prob, pop); tp = time.time() - t
se = SequentialEvaluator(); se.evaluate(prob, pop2)
print("parallel == sequential:", [i.get_fitness(prob) for i in pop] == [i.get_fitness(prob) for i in pop2], "pool time %.2fs" % tp)
lines = [l.split() for l in open(logf)]
par = lines[:6]
order = [l[2] for l in sorted(par, key=lambda l: int(l[1]))]
print("invocations", len(lines), "distinct pids in parallel part", len({l[0] for l in par}), "completion order != submission order:", order != [str(int(hashlib.sha1(repr(i.get_phenotype()).encode()).hexdigest(),16) % 10**6) for i in pop])
print("anchor counts", dict(counts), "guarded log", Guarded.log[:3])
sys.monitoring.set_events(TOOL, 0); sys.monitoring.free_tool_id(TOOL)
