import sys, hashlib
pad = int(sys.argv[2]) if len(sys.argv)>2 else 0
junk = [type(f"J{i}", (), {}) for i in range(pad)]  # perturb allocation before class definitions
from abc import ABC
from dataclasses import dataclass
from typing import Annotated
from geneticengine.grammar.grammar import extract_grammar
from geneticengine.random.sources import NativeRandomSource
from geneticengine.representations.tree.initializations import *
from geneticengine.representations.tree.treebased import *
from geneticengine.representations.grammatical_evolution.ge import GrammaticalEvolutionRepresentation
from geneticengine.representations.grammatical_evolution.structured_ge import StructuredGrammaticalEvolutionRepresentation
from geneticengine.representations.grammatical_evolution.dynamic_structured_ge import DynamicStructuredGrammaticalEvolutionRepresentation
from geneticengine.representations.stackgggp import StackBasedGGGPRepresentation
from geneticengine.grammar.metahandlers.ints import IntRange
from geneticengine.algorithms.gp.gp import GeneticProgramming
from geneticengine.algorithms.random_search import RandomSearch
from geneticengine.evaluation.budget import EvaluationBudget
from geneticengine.problems import SingleObjectiveProblem

class Root(ABC): pass
@dataclass
class Leaf(Root): pass
@dataclass
class Lit(Root):
    v: Annotated[int, IntRange(3, 9)]
@dataclass
class Plus(Root):
    a: Root
    b: Root
@dataclass
class Neg(Root):
    a: Root
g = extract_grammar([Leaf, Lit, Plus, Neg], Root)
which = sys.argv[1]
r = NativeRandomSource(11)
rep = {"tree": lambda: TreeBasedRepresentation(g, MaxDepthDecider(r, g, 5)),
 "ge": lambda: GrammaticalEvolutionRepresentation(g, MaxDepthDecider(r, g, 5), 64),
 "sge": lambda: StructuredGrammaticalEvolutionRepresentation(g, MaxDepthDecider(r, g, 5), 64),
 "dsge": lambda: DynamicStructuredGrammaticalEvolutionRepresentation(g, 5),
 "stack": lambda: StackBasedGGGPRepresentation(g, 512)}[which]()
log = []
def ff(p):
    log.append(repr(p)); return len(repr(p)) % 17
gp = GeneticProgramming(problem=SingleObjectiveProblem(ff), budget=EvaluationBudget(60), population_size=10, representation=rep, random=r)
best = gp.search()
print(which, hashlib.sha1("\n".join(log).encode()).hexdigest()[:12], len(log), repr(best.get_phenotype())[:40])
