import sys, collections, itertools
sys.path.insert(0, "/repo/tests/representations")
from abc import ABC
from dataclasses import dataclass
from typing import Annotated
from geneticengine.grammar.grammar import extract_grammar
from geneticengine.random.sources import NativeRandomSource, RandomSource
from geneticengine.representations.tree.initializations import *
from geneticengine.representations.tree.treebased import *
from geneticengine.problems import SingleObjectiveProblem, MultiObjectiveProblem
from geneticengine.solutions.individual import Individual
from geneticengine.evaluation.sequential import SequentialEvaluator
from geneticengine.algorithms.gp.operators.combinators import *
from geneticengine.algorithms.gp.operators.elitism import ElitismStep
from geneticengine.algorithms.gp.operators.novelty import NoveltyStep
from geneticengine.algorithms.gp.operators.selection import *
from geneticengine.algorithms.gp.operators.crossover import GenericCrossoverStep
from geneticengine.algorithms.gp.operators.mutation import GenericMutationStep

# C10
import dependent_types_context_test as dt
g = extract_grammar([dt.Let, dt.Var, dt.Literal], dt.Expr)
before = {k: list(v) for k, v in g.alternatives.items()}
r = NativeRandomSource(1)
rep = TreeBasedRepresentation(g, MaxDepthDecider(r, g, 5))
for i in range(30):
    try: rep.create_genotype(r)
    except Exception as e: print("create err", type(e).__name__, e); break
after = {k: list(v) for k, v in g.alternatives.items()}
print("C10 alternatives before", before, "\n    after", after)

# C13: multiobjective invocation count
calls = []
def ff(p): calls.append(1); return [1.0, 2.0]
class R(ABC): pass
@dataclass
class X(R):
    a: Annotated[int, IntRange(0,5)] if False else int
gg = extract_grammar([X], R)
mp = MultiObjectiveProblem([True, False], ff)
ev = SequentialEvaluator()
rr = NativeRandomSource(0)
rp = TreeBasedRepresentation(gg, MaxDepthDecider(rr, gg, 3))
inds = [Individual(rp.create_genotype(rr), rp) for _ in range(5)]
ev.evaluate(mp, inds)
print("C13 multiobj: count", ev.number_of_evaluations(), "invocations", len(calls), inds[0].get_fitness(mp))

# C15 sizes
sp = SingleObjectiveProblem(lambda p: p.a)
def run(step, n, target=None, popform="list"):
    inds = [Individual(rp.create_genotype(rr), rp) for _ in range(n)]
    pop = inds if popform=="list" else iter(inds)
    try:
        out = list(step.apply(sp, SequentialEvaluator(), rp, rr, pop, target or n, 0))
        return len(out)
    except Exception as e:
        return f"{type(e).__name__}:{e}"
bad = collections.Counter()
for n in range(2, 12):
    for w in itertools.product([0,1,2,3,5,90], repeat=3):
        if sum(w)==0: continue
        s = ParallelStep([ElitismStep(), NoveltyStep(), SequenceStep(TournamentSelection(2), GenericCrossoverStep(0.5), GenericMutationStep(0.5))], list(w))
        k = run(s, n)
        if k != n: bad[(n, w, k)] += 1
print("C15 ParallelStep mismatches:", len(bad), list(bad)[:8])
bad = collections.Counter()
for n in range(2, 12):
    for w in itertools.product([0,1,2,3,5], repeat=2):
        if sum(w)==0: continue
        s = ExclusiveParallelStep([GenericMutationStep(0.5), GenericCrossoverStep(0.5)], list(w))
        k = run(s, n)
        if k != n: bad[(n, w, k)] += 1
print("C15 ExclusiveParallelStep mismatches:", len(bad), list(bad)[:8])
for nm, s in [("elit", ElitismStep()), ("tour1", TournamentSelection(1)), ("tour3", TournamentSelection(3)), ("mut", GenericMutationStep(1)), ("cx", GenericCrossoverStep(1)), ("nov", NoveltyStep()), ("par", ParallelStep([ElitismStep(), NoveltyStep()],[1,1])), ("seq", SequenceStep(TournamentSelection(2), ElitismStep()))]:
    print("C15", nm, "list:", [run(s, n) for n in (2,3,5)], "iter:", [run(s, n, popform="iter") for n in (2,3,5)], "k<n:", run(s, 7, 3))
