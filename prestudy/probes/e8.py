import sys, collections, itertools, os, tempfile
from abc import ABC
from dataclasses import dataclass
from geneticengine.grammar.grammar import extract_grammar
from geneticengine.random.sources import NativeRandomSource, RandomSource
from geneticengine.representations.tree.initializations import *
from geneticengine.representations.tree.treebased import *
from geneticengine.problems import SingleObjectiveProblem, MultiObjectiveProblem
from geneticengine.solutions.individual import Individual
from geneticengine.evaluation.sequential import SequentialEvaluator
from geneticengine.evaluation.recorder import CSVSearchRecorder
from geneticengine.evaluation.tracker import *
from geneticengine.algorithms.gp.operators.selection import *
from geneticengine.representations.grammatical_evolution.ge import ListWrapper
from geneticengine.representations.grammatical_evolution.structured_ge import StructuredListWrapper
import geneticengine.representations.stackgggp as st

class R(ABC): pass
@dataclass
class X(R):
    a: int
    b: int
gg = extract_grammar([X], R)
rr = NativeRandomSource(0)
rp = TreeBasedRepresentation(gg, MaxDepthDecider(rr, gg, 3))

# C18 zero weight
class Scripted(RandomSource):
    def __init__(self, vals): self.vals=list(vals); self.log=[]
    def randint(self, a, b):
        self.log.append((a,b)); v=self.vals.pop(0); assert a<=v<=b; return v
    def random_float(self,a,b): return a
s = Scripted([100000*3])
print("C18 choice_weighted([a,b,c],[0,1,2]) with max draw ->", s.choice_weighted(["a","b","c"], [0,1,2]), s.log)
# decider random_int bounds
d = BaseDecider.__new__(MaxDepthDecider); d.random = NativeRandomSource(5)
out = collections.Counter()
for lo, hi in [(0,1500), (0,1001), (-5000, 5000), (0, 10**6), (-(sys.maxsize-1), sys.maxsize)]:
    bad = 0
    for i in range(20000):
        v = BaseDecider.random_int(d, lo, hi)
        if not (lo <= v <= hi): bad += 1
    print("C18 BaseDecider.random_int", (lo,hi), "out-of-range", bad, "/20000")
# ListWrappers
for W in (ListWrapper, st.ListWrapper):
    w = W([0, 5, 2**63-1, -7, 123456789])
    bad=0
    for (lo,hi) in [(0,0),(0,1),(-3,3),(5,5),(-10**9,10**9),(1,sys.maxsize)]:
        for i in range(10):
            v=w.randint(lo,hi)
            if not lo<=v<=hi: bad+=1
            f=w.random_float(float(lo), float(hi))
            if not lo<=f<=hi: bad+=1; print("float oob", W.__module__, lo,hi,f)
    print("C18", W.__module__, "bad", bad)

# C17 lexicase: case consumption
mp = MultiObjectiveProblem([False, False, False], lambda p: [p.a % 7, p.b % 5, (p.a+p.b) % 3])
inds = [Individual(rp.create_genotype(rr), rp) for _ in range(8)]
class Rec(NativeRandomSource):
    def __init__(self, s): super().__init__(s); self.n=0
    def randint(self,a,b): self.n+=1; return super().randint(a,b)
rec = Rec(1)
lx = LexicaseSelection()
out = list(lx.apply(mp, SequentialEvaluator(), rp, rec, inds, 5, 0))
def survives(w, cands):
    for perm in itertools.permutations(range(3)):
        c = list(cands)
        for case in perm:
            if len(c)<=1: break
            best = max(x.get_fitness(mp).fitness_components[case] for x in c)
            c = [x for x in c if x.get_fitness(mp).fitness_components[case] >= best]
        if any(x is w for x in c): return True
    return False
cands = list(inds)
res=[]
for w in out:
    res.append(survives(w, cands)); cands.remove(w)
print("C17 lexicase winners survive some case order:", res)

# C20 csv multi-objective columns
path = os.path.join(tempfile.mkdtemp(), "x.csv")
mp2 = MultiObjectiveProblem([False, True], lambda p: [float(p.a % 7), float(p.b % 5)])
inds[0].ensure_fitness(mp2)
recd = CSVSearchRecorder(path, mp2, only_record_best_individuals=False)
tr = MultiObjectiveProgressTracker(mp2, SequentialEvaluator(), [recd])
tr.evaluate(inds[:3])
print(open(path).read())
print([i.get_fitness(mp2).fitness_components for i in inds[:3]])
