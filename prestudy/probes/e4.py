from abc import ABC
from dataclasses import dataclass
from typing import Annotated, Union
import traceback, collections
from geneticengine.grammar.grammar import extract_grammar
from geneticengine.random.sources import NativeRandomSource
from geneticengine.representations.tree.initializations import *
from geneticengine.representations.tree.treebased import *
from geneticengine.representations.grammatical_evolution.ge import GrammaticalEvolutionRepresentation
from geneticengine.representations.grammatical_evolution.structured_ge import StructuredGrammaticalEvolutionRepresentation
from geneticengine.representations.grammatical_evolution.dynamic_structured_ge import DynamicStructuredGrammaticalEvolutionRepresentation
from geneticengine.representations.stackgggp import StackBasedGGGPRepresentation
from geneticengine.grammar.metahandlers.ints import IntRange
from geneticengine.grammar.metahandlers.lists import ListSizeBetween

class Root(ABC): pass
@dataclass
class Leaf(Root): pass
@dataclass
class Lit(Root):
    v: Annotated[int, IntRange(3, 9)]
@dataclass
class Plus(Root):
    a: Root
    b: Root
@dataclass
class Raw(Root):
    i: int
    b: bool
    f: float

g = extract_grammar([Leaf, Lit, Plus, Raw], Root)
for name, mk in [("ge", lambda r: GrammaticalEvolutionRepresentation(g, MaxDepthDecider(r, g, 5), gene_length=32)),
                 ("sge", lambda r: StructuredGrammaticalEvolutionRepresentation(g, MaxDepthDecider(r, g, 5), gene_length=32)),
                 ("dsge", lambda r: DynamicStructuredGrammaticalEvolutionRepresentation(g, 5)),
                 ("stack", lambda r: StackBasedGGGPRepresentation(g, 512))]:
    r = NativeRandomSource(7)
    rep = mk(r)
    same = diff = err = 0; advanced = 0
    errs = collections.Counter()
    for i in range(100):
        try:
            gt = rep.create_genotype(r)
            st0 = r.random.getstate()
            p1 = rep.genotype_to_phenotype(gt)
            st1 = r.random.getstate()
            p2 = rep.genotype_to_phenotype(gt)
            st2 = r.random.getstate()
            if st1 != st0 or st2 != st1: advanced += 1
            if repr(p1) == repr(p2): same += 1
            else: diff += 1
        except Exception as e:
            err += 1; errs[type(e).__name__ + ":" + str(e)[:60]] += 1
    print(name, "same", same, "diff", diff, "err", err, "advanced-shared-rng", advanced, dict(errs))
    # example phenotype
    try:
        print("   ex:", p1)
    except Exception: pass
